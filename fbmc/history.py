"""Histories: sequences of real API calls (build / clean / external mutation),
each executed by the implementation and by the reference model from the same
state, with the oracles of DESIGN.md section 4 evaluated around every call.

A history is replayable from its JSON spec alone:
  {'cfg': 'K0'|'K1', 'steps': [step...]}
  step = {'op':'mut','m':[...]} | {'op':'build','prog':..,'versions':..,'crash':k}
       | {'op':'clean'}
"""
import copy
import gzip
import hashlib
import json
import os

from . import universe as uni
from . import faults
from . import effect
from .apis import RealApi, RefApi
from .dsl import Interp, Crash, CATCH, UserError, same, first_diff, canon
from .refmodel import RefState, RefRun

CFG = {'K0': 'c', 'K1': 'k/c'}
BUILD_NAME = 'n'


class Violation(dict):
    """{'clause':..., 'facts': {...}, 'detail': ...} + filled in by the caller:
    'history' (spec) and 'property'."""
    pass


def viol(clause, facts=None, **detail):
    return Violation(clause=clause, facts=facts or {}, detail=detail)


class StepResult:
    __slots__ = ('op', 'real', 'ref', 'before', 'after', 'real_inv', 'ref_inv',
                 'npoints', 'violations', 'crashed', 'exc', 'bf_paths',
                 'ref_run', 'skipped', 'answers', 'fault', 'mnr', 'unchanged')

    def __init__(self, op):
        self.op = op
        self.real = self.ref = None
        self.before = self.after = None
        self.real_inv = self.ref_inv = None
        self.npoints = 0
        self.violations = []
        self.crashed = False
        self.exc = None
        self.bf_paths = []
        self.ref_run = None
        self.skipped = False
        self.answers = 0
        self.fault = None
        self.mnr = 0
        self.unchanged = False


class World:
    """Sandbox + reference state + the history executed so far."""

    def __init__(self, sb, fbmod, cfg='K0'):
        self.sb = sb
        self.fb = fbmod
        self.FileBuilder = fbmod.FileBuilder
        self.cfg = cfg
        self.cache_rel = CFG[cfg]
        self.cache = sb.p(self.cache_rel)
        self.ref = None
        self.steps = []
        self.diverged = False
        self.transitions = 0
        self.state_digests = set()
        self.mask_names = set(os.environ.get('FBMC_MASK', '').split()) if cfg == 'K1' else set()
        self.twin_on = False     # compare every build with the implementation's own clean + cache-less build
        self.last_commit = None

    # -- lifecycle ------------------------------------------------------------
    def start(self):
        self.sb.reset()
        self.ref = RefState(self.sb.R, self.cache)
        self.steps = []
        self.diverged = False
        self.last_commit = None

    def spec(self):
        d = {'cfg': self.cfg, 'steps': copy.deepcopy(self.steps)}
        if self.twin_on:
            d['twin'] = True
        return d

    def twin(self, prog, versions):
        """The reference execution of the property text, performed by the
        implementation itself on the current state: delete the previous build's
        outputs, cache file and emptied created directories (clean), then run
        the program with no cache at all.  Returns (result, plain tree) or None
        when clean itself fails; the caller restores the state."""
        sb = self.sb
        if os.path.isdir(self.cache):
            return None
        with faults.paused():
            if os.path.isfile(self.cache):
                try:
                    self.FileBuilder.clean(self.cache, BUILD_NAME)
                except Exception:
                    return None
            it = Interp(prog, versions, None)
            log = {'bf_paths': [], 'answers': 0, 'mask': self.mask_names}

            def root(b):
                return it.root(RealApi(self.fb, sb, b, None, log, root=True))
            try:
                res = ('ok', self.FileBuilder.build_versioned(self.cache, BUILD_NAME, versions, root))
            except Exception as e:
                res = ('exc', type(e).__name__)
            return res, uni.plain(uni.snap(sb.R), self.cache_rel)

    def save(self):
        return (self.sb.save(), self.ref.fs.copy(), copy.deepcopy(self.ref.rec),
                list(self.steps), self.diverged, self.last_commit)

    def restore(self, h):
        self.sb.restore(h[0])
        self.ref = RefState(self.sb.R, self.cache)
        self.ref.fs = h[1].copy()
        self.ref.rec = copy.deepcopy(h[2])
        self.steps = list(h[3])
        self.diverged = h[4]
        self.last_commit = h[5]

    def drop(self, h):
        self.sb.drop(h[0])

    # -- helpers ------------------------------------------------------------
    def _ref_plain(self):
        return self.ref.fs.as_plain(self.sb.rel)

    def _mask(self, tree):
        """Latitude (a): directories that only hold the cache file are not
        observed."""
        if not self.mask_names:
            return tree
        return {r: v for r, v in tree.items()
                if r.split('/', 1)[0] not in self.mask_names}

    def note_state(self, snapshot):
        self.state_digests.add(canon_state(snapshot, self.cache_rel, self.sb.R))

    # -- steps ----------------------------------------------------------------
    def mutate(self, m):
        ok = uni.apply_mutation(self.sb, m, self.ref.fs)
        if ok:
            self.ref.sync()
            self.steps.append({'op': 'mut', 'm': m})
        return ok

    def build(self, prog, versions=None, crash_at=None, check_ref=True, hook=None, fault=None):
        """fault: None | {'k': int|None, 'errno': int, 'file': None|['write', n]|['close']}
        (k None = count the mutating library calls only)."""
        sb = self.sb
        res = StepResult('build')
        step = {'op': 'build', 'prog': prog}
        if versions:
            step['versions'] = versions
        if crash_at is not None:
            step['crash'] = crash_at
        if fault is not None:
            step['fault'] = fault
        self.steps.append(step)
        versions = versions or {}
        tw = None
        if self.twin_on and crash_at is None and fault is None:
            h2 = sb.save()
            tw = self.twin(prog, versions)
            sb.restore(h2)
            sb.drop(h2)
        res.before = uni.snap(sb.R)
        tmp_before = sb.tmp_listing()
        clock0 = sb.clock
        it = Interp(prog, versions, crash_at)
        log = {'bf_paths': [], 'answers': 0, 'mask': self.mask_names}

        cache_before = res.before.get(self.cache_rel)

        def root(b):
            api = RealApi(self.fb, sb, b, None, log, root=True)
            if hook is not None:
                hook(api)
            try:
                return it.root(api)
            finally:
                # the cache file is replaced only after the root function succeeded
                with faults.paused():
                    try:
                        with open(self.cache, 'rb') as f:
                            now = f.read()
                    except OSError:
                        now = None
                if now != (cache_before[1] if cache_before else None):
                    log['cache_early'] = True
        if fault is not None:
            faults.install(self.fb)
            ff = fault.get('file')
            faults.begin(fault.get('k'), fault.get('errno', 5), it.active_call, tuple(ff) if ff else None)
            it.fault_sid = faults.fired_call
        try:
            rv = self.FileBuilder.build_versioned(self.cache, BUILD_NAME, versions, root)
            res.real = ('ok', rv)
        except Crash as e:
            res.real = ('exc', 'Crash')
            res.crashed = True
            res.exc = e
            if e is not it.crash_obj:
                res.violations.append(viol('rollback.exception_identity', {'kind': 'Crash'}))
        except Exception as e:
            res.real = ('exc', type(e).__name__)
            res.exc = e
            if it.pending is not None and e is not it.pending:
                res.violations.append(viol('rollback.exception_identity', {'kind': type(it.pending).__name__}))
        finally:
            if fault is not None:
                res.fault = faults.end()
        self.transitions += 1
        res.after = uni.snap(sb.R)
        for c in log.get('contract', ()):
            res.violations.append(viol('contract.' + c[0], {}, path=c[1], info=c[2:] or None))
        for sid in it.identity_errors:
            res.violations.append(viol('contract.exception_identity', {}, call=sid))
        if log.get('cache_early'):
            res.violations.append(viol('cache.replaced_before_root_returned', {}))
        if res.real[0] == 'ok':
            dup = cache_duplicates(res.after.get(self.cache_rel))
            if dup:
                res.violations.append(viol('cache.duplicate_record', {}, keys=dup[:3]))
            bad = cache_comparison_mismatches(res.after, self.cache_rel, sb)
            if bad:
                res.violations.append(viol('cachecmp.recorded_result_differs_from_the_file', {'comparison': bad[0][1]}, records=bad[:3]))
        if tw is not None:
            self.twin_runs = getattr(self, 'twin_runs', 0) + 1
            if not self._agrees(res.real, tw[0]):
                res.violations.append(viol('twin.result', {'incremental': res.real[0] if res.real[0] == 'ok' else res.real[1],
                                                           'from_scratch': tw[0][0] if tw[0][0] == 'ok' else tw[0][1]},
                                           diff=first_diff(res.real[1], tw[0][1]) if res.real[0] == tw[0][0] == 'ok' else None))
            elif res.real[0] == 'ok' and uni.plain(res.after, self.cache_rel) != tw[1]:
                # (a build that raises rolls back to its own start state, which for the reference
                # execution is the state after the deletions: only the exception type is compared)
                a, b = uni.plain(res.after, self.cache_rel), tw[1]
                res.violations.append(viol('twin.tree', {}, differing=sorted(p for p in set(a) | set(b) if a.get(p) != b.get(p))[:6]))
        res.real_inv = it.invocations
        res.npoints = it.npoints
        res.bf_paths = log['bf_paths']
        res.answers = log['answers']
        self.note_state(res.after)
        V = res.violations

        tmp_after = sb.tmp_listing()
        if tmp_after != tmp_before:
            V.append(viol('tmpdir.leftover', {'after': 'build'}, left=tmp_after))

        # ---- reference model ------------------------------------------------
        rec_before = copy.deepcopy(self.ref.rec)
        files_at_start = dict(self.ref.fs.t)
        was_diverged = self.diverged
        if self.ref.rec is None:
            self.last_commit = None
        fired = res.fault['fired'] if res.fault else None
        if res.crashed:
            res.ref = ('exc', 'Crash')
        elif fired and fired[2] is None and res.real[0] == 'exc':
            # the fault hit outside any build_file/subbuild call (cache
            # directory, backup store, cache write): the build as a whole fails
            res.ref = ('exc', res.real[1] if isinstance(res.exc, OSError) else 'OSError')
        else:
            cands = []
            if fired and fired[2] is not None:
                cands.append({fired[2]: (lambda m, e=fault.get('errno', 5): OSError(e, m))})
            cands.append({})
            chosen = None
            for ci, fs in enumerate(cands):
                out = self._ref_run(prog, versions, fs, fired[2] if fired else None)
                if chosen is None:
                    chosen = (fs, out)
                if self._agrees(res.real, out[0]) and self._tree_agrees(res, out):
                    chosen = (fs, out)
                    break
            fs, out = chosen
            res.ref, res.ref_run, res.ref_inv = out
            if fs:
                res.fault['modelled_as'] = 'setup failure of call ' + fired[2]
            elif fired:
                res.fault['modelled_as'] = 'absorbed (no observable effect)'
            if res.ref[0] == 'ok':
                res.ref_run.commit()
            elif res.ref[0] == 'undefined':
                self.diverged = True

        # ---- FOREIGN monitor (C03) ------------------------------------------
        managed = {self.cache_rel}
        managed.update(r for r in res.bf_paths if isinstance(r, str))
        prev_created = set()
        if rec_before is not None:
            managed.update(sb.rel(o) for o in rec_before['outputs'])
            prev_created = {sb.rel(d) for d in rec_before['created']}
        self._foreign_monitor(res, managed, prev_created, rolled_back=res.real[0] == 'exc')

        # ---- rollback monitor (C02) -----------------------------------------
        if res.real[0] == 'exc':
            self._rollback_monitor(res, prev_created)

        # ---- EQ-REF -----------------------------------------------------------
        if check_ref and not self.diverged:
            self._eq_ref(res)
        self._effect_oracle(res, files_at_start, versions, fault, was_diverged)
        if res.real[0] == 'exc':
            # The rollback monitors above compare before/after directly.  For
            # everything that follows, the reference state adopts the tree the
            # rollback actually left (latitude b: recorded directories may
            # reappear), so later oracles are not polluted by it.
            self._adopt_real_tree(res.after)
        return res

    def _effect_oracle(self, res, files_at_start, versions, fault, was_diverged):
        """C05: no unjustified re-execution; outputs of calls that were not
        re-executed are not rewritten."""
        prev = self.last_commit
        ok = (res.real[0] == 'ok' and res.ref is not None and res.ref[0] == 'ok' and not was_diverged and
              fault is None and res.ref_run is not None)
        if ok and prev is not None and prev['cache'] == self.cache:
            V = res.violations
            invoked = effect.real_idents(self.sb, res.real_inv)
            invoked_set = set(invoked)
            mnr = effect.must_not_run(prev, res.ref_run.trace, files_at_start, versions, self.sb.R, self.mask_names)
            res.mnr = len(mnr)
            for i, node in mnr.items():
                if effect.loose(i) in invoked_set:
                    facts = {'kind': i[0]}
                    if effect.ghost_dirsize(node, files_at_start):
                        facts['asked_the_size_of_a_directory_absent_when_the_rebuild_starts'] = True
                    V.append(viol('effect.unjustified_rerun', facts,
                                  call=[self.sb.rel(i[1]) if i[1] else None, effect.fname_of(node)]))
            unchanged = (effect.root_equal(prev['trace'], res.ref_run.trace) and
                         effect.clear(res.ref_run.trace, self.sb.R, self.mask_names) and
                         not effect.displaced_failure(res.ref_run.trace) and
                         all(files_at_start.get(p) == prev['files'].get(p) for p in prev['files']) and
                         effect.versions_equal_all(prev['versions'], versions))
            if unchanged:
                want = [effect.loose(i) for i in effect.predict_unchanged(prev['trace'])]
                res.unchanged = True
                if invoked != want:
                    facts = {}
                    if effect.ghost_dirsize(prev['trace'], files_at_start):
                        facts['asked_the_size_of_a_directory_absent_when_the_rebuild_starts'] = True
                    V.append(viol('effect.unchanged_rebuild_log', facts,
                                  invoked=[[self.sb.rel(i[1]) if i[1] else None, str(i[2])[:60]] for i in invoked],
                                  expected=[[self.sb.rel(i[1]) if i[1] else None, str(i[2])[:60]] for i in want]))
            # outputs whose producer did not run keep inode and mtime
            ran_paths = {i[1] for i in invoked if i[0] == 'bf'}
            for r, v in res.before.items():
                if v[0] == 'f' and r != self.cache_rel and self.sb.p(r) in prev['outputs']:
                    w = res.after.get(r)
                    if w is not None and w[0] == 'f' and self.sb.p(r) not in ran_paths and (w[2], w[3]) != (v[2], v[3]):
                        V.append(viol('effect.output_rewritten', {}, path=r))
        if (res.real[0] == 'ok' and res.ref is not None and res.ref[0] == 'ok' and res.ref_run is not None and
                fault is None and not self.diverged):
            self.last_commit = {'trace': res.ref_run.trace, 'files': dict(self.ref.fs.t), 'versions': dict(versions),
                                'cache': self.cache, 'outputs': set(res.ref_run.outputs)}
        elif res.real[0] == 'ok':
            self.last_commit = None

    def _ref_run(self, prog, versions, fail_setup, fired_sid=None):
        it2 = Interp(prog, versions, None)
        it2.fail_setup = fail_setup
        if fired_sid is not None:
            # the implementation's interpreter reports any OSError caught at the call in which
            # the fault fired as 'OSError*'; so must the model run (also when the fault is absorbed)
            it2.fault_sid = lambda: fired_sid
        run = None
        try:
            run = RefRun(self.ref, versions)
            run.mask = self.mask_names
            rv2 = it2.root(RefApi(self.sb, run, None, root=True))
            ref = ('ok', rv2)
        except CATCH as e:
            ref = ('exc', type(e).__name__)
        except AssertionError:
            # the program left the domain the model defines (it violates a
            # documented user obligation): only the model-free monitors apply
            ref = ('undefined', None)
        return ref, run, it2.invocations

    @staticmethod
    def _agrees(real, ref):
        if real[0] != ref[0]:
            return False
        if real[0] == 'exc':
            return real[1] == ref[1]
        return same(real[1], ref[1])

    @staticmethod
    def _is_oserror(name):
        import builtins
        c = getattr(builtins, name, None)
        return isinstance(c, type) and issubclass(c, OSError)

    def _tree_agrees(self, res, out):
        ref, run, _ = out
        if ref[0] != 'ok' or run is None:
            return True
        t = run.fs.as_plain(self.sb.rel)
        t[self.cache_rel] = ('f', b'<cache>')
        return uni.plain(res.after, self.cache_rel) == t

    def _adopt_real_tree(self, snapshot):
        t = {}
        for r, v in snapshot.items():
            p = self.sb.p(r)
            if v[0] == 'd':
                t[p] = ('d',)
            elif r == self.cache_rel:
                t[p] = ('f', b'<cache>', 0)
            else:
                old = self.ref.fs.t.get(p)
                if old is not None and old[0] == 'f' and old[1] == v[1]:
                    t[p] = old
                else:
                    from .refmodel import new_mid
                    t[p] = ('f', v[1], new_mid())
        self.ref.fs.t = t
        self.ref.sync()

    def _eq_ref(self, res):
        V = res.violations
        real, ref = res.real, res.ref
        if (real[0] == 'exc' and ref[0] == 'exc' and res.fault and res.fault.get('fired') and
                self._is_oserror(real[1]) and self._is_oserror(ref[1])):
            # an injected fault surfaced: the library may convert the class (rmdir failing in
            # _make_room becomes IsADirectoryError); any OSError will do
            return
        if real[0] != ref[0] or (real[0] == 'exc' and real[1] != ref[1]):
            V.append(viol('eqref.result_class',
                          {'real': real[1] if real[0] == 'exc' else 'ok',
                           'ref': ref[1] if ref[0] == 'exc' else 'ok'}))
            self.diverged = True
            return
        if real[0] == 'ok' and not same(real[1], ref[1]):
            d = first_diff(real[1], ref[1])
            facts = {}
            if d and isinstance(d[1], list) and len(d[1]) == 4 and d[1][0] == 'q':
                facts = {'query': d[1][1], 'real': _short(d[1][3]), 'ref': _short(d[2][3])}
                clause = 'eqref.answer'
            else:
                clause = 'eqref.value'
            V.append(viol(clause, facts, at=list(d[0]) if d else None,
                          real=_short(d[1]) if d else None, ref=_short(d[2]) if d else None))
            self.diverged = True
            return
        # trees are compared in full: the cache directory is created by the build and recorded, so it
        # must be there after a commit and gone after clean (latitude (a) only concerns query answers)
        a = uni.plain(res.after, self.cache_rel)
        b = self._ref_plain()
        if real[0] == 'exc':
            return       # tree after a failed build: rollback monitor
        if a != b:
            extra = sorted(set(a) - set(b))
            missing = sorted(set(b) - set(a))
            changed = sorted(p for p in a if p in b and a[p] != b[p])
            V.append(viol('eqref.tree',
                          {'extra': sorted({a[p][0] for p in extra}),
                           'missing': sorted({b[p][0] for p in missing}),
                           'changed': bool(changed)},
                          extra=extra, missing=missing, changed=changed))
            self.diverged = True

    def _foreign_monitor(self, res, managed, prev_created, rolled_back):
        V = res.violations
        before, after = res.before, res.after
        for r, v in before.items():
            if v[0] == 'f':
                if r in managed and not rolled_back:
                    continue
                w = after.get(r)
                if w is None or w[0] != 'f':
                    V.append(viol('foreign.file_lost', {'managed': r in managed, 'rolled_back': rolled_back}, path=r))
                elif w[1] != v[1] or w[2] != v[2]:
                    V.append(viol('foreign.file_changed', {'managed': r in managed, 'rolled_back': rolled_back}, path=r))
                elif r not in managed and w[3] != v[3]:
                    V.append(viol('foreign.file_moved', {'rolled_back': rolled_back}, path=r))
            else:
                if after.get(r, ('x',))[0] != 'd':
                    # a directory disappeared (or became a file)
                    under = [q for q in before if q.startswith(r + '/') and before[q][0] == 'f']
                    foreign_under = [q for q in under if q not in managed]
                    if r not in prev_created:
                        V.append(viol('foreign.dir_removed', {'created_by_build': False}, path=r))
                    elif foreign_under:
                        V.append(viol('foreign.dir_removed', {'created_by_build': True, 'held_foreign': True}, path=r))

    def _rollback_monitor(self, res, prev_created):
        V = res.violations
        before, after = res.before, res.after
        for r, v in before.items():
            w = after.get(r)
            if v[0] == 'f':
                if w is None or w[0] != 'f' or w[1] != v[1] or w[2] != v[2]:
                    V.append(viol('rollback.file_not_restored',
                                  {'role': self._role(r, res), 'after': None if w is None else w[0]}, path=r))
            elif w is None or w[0] != 'd':
                V.append(viol('rollback.dir_missing', {'role': self._role(r, res)}, path=r))
        for r, w in after.items():
            if r not in before:
                if w[0] == 'f':
                    V.append(viol('rollback.extra_file', {'role': self._role(r, res)}, path=r))
                elif r not in prev_created:
                    V.append(viol('rollback.extra_dir', {'role': self._role(r, res)}, path=r))
                elif any(q.startswith(r + '/') and after[q][0] == 'f' for q in after):
                    V.append(viol('rollback.extra_dir_nonempty', {}, path=r))

    def _role(self, r, res):
        rec = self.ref.rec
        roles = []
        if r == self.cache_rel:
            roles.append('cache')
        if rec is not None:
            if self.sb.p(r) in rec['outputs']:
                roles.append('prev_output')
            if self.sb.p(r) in rec['created']:
                roles.append('prev_created_dir')
        if r in res.bf_paths:
            roles.append('target')
        return '+'.join(roles) or 'foreign'

    def clean(self, check_ref=True):
        sb = self.sb
        res = StepResult('clean')
        self.steps.append({'op': 'clean'})
        res.before = uni.snap(sb.R)
        try:
            self.FileBuilder.clean(self.cache, BUILD_NAME)
            res.real = ('ok', None)
        except Exception as e:
            res.real = ('exc', type(e).__name__)
            res.exc = e
        self.transitions += 1
        res.after = uni.snap(sb.R)
        self.note_state(res.after)
        rec_before = copy.deepcopy(self.ref.rec)
        had_cache = self.ref.fs.kind(self.cache) is not None
        self.last_commit = None
        try:
            self.ref.clean()
            res.ref = ('ok', None)
        except CATCH as e:
            res.ref = ('exc', type(e).__name__)
        V = res.violations
        managed = {self.cache_rel}
        prev_created = set()
        if rec_before is not None:
            managed.update(sb.rel(o) for o in rec_before['outputs'])
            prev_created = {sb.rel(d) for d in rec_before['created']}
        self._foreign_monitor(res, managed, prev_created, rolled_back=False)
        if check_ref and not self.diverged:
            if res.real[0] != 'ok':
                V.append(viol('clean.raised', {'real': res.real[1]}))
                self.diverged = True
            else:
                a = uni.plain(res.after, self.cache_rel)
                b = self._ref_plain()
                if a != b:
                    extra = sorted(set(a) - set(b))
                    missing = sorted(set(b) - set(a))
                    V.append(viol('clean.tree',
                                  {'extra': sorted({a[p][0] for p in extra}),
                                   'missing': sorted({b[p][0] for p in missing})},
                                  extra=extra, missing=missing))
                    self.diverged = True
        return res


def _short(v, n=160):
    s = json.dumps(v, default=str)
    return s if len(s) <= n else s[:n] + '...'


def canon_state(snapshot, cache_rel, R):
    """Digest of the canonical state: tree (kinds, bytes, mtime ranks) plus the
    decoded cache file with recorded times renamed by the same ranking."""
    times = set()
    cache_json = None
    for r, v in snapshot.items():
        if v[0] == 'f':
            if r == cache_rel:
                try:
                    txt = gzip.decompress(v[1]).decode().replace(R, '$R')
                    cache_json = json.loads(txt)
                except Exception:
                    cache_json = {'undecodable': hashlib.sha1(v[1]).hexdigest()}
            else:
                times.add(v[2])
    if cache_json is not None:
        _collect_times(cache_json, times)
    rank = {t: i for i, t in enumerate(sorted(times))}
    tree = []
    for r in sorted(snapshot):
        v = snapshot[r]
        if v[0] == 'd':
            tree.append([r, 'd'])
        elif r == cache_rel:
            tree.append([r, 'cache'])
        else:
            tree.append([r, 'f', v[1].decode('latin1'), rank[v[2]]])
    if cache_json is not None:
        cache_json = _rename_times(cache_json, rank)
        if isinstance(cache_json, dict) and isinstance(cache_json.get('createdDirs'), list):
            cache_json['createdDirs'] = sorted(cache_json['createdDirs'])
    return hashlib.sha1(canon([tree, cache_json]).encode()).digest()[:10]


def cache_duplicates(entry):
    """Structural invariant of a committed cache file: every build_file path
    and every subbuild key occurs once in the operation forest."""
    if entry is None or entry[0] != 'f':
        return ['<no cache file>']
    try:
        j = json.loads(gzip.decompress(entry[1]))
    except Exception:
        return ['<undecodable>']
    seen, dup = set(), []

    def walk(ops):
        for o in ops:
            t = o.get('type')
            if t in ('build_file', 'subbuild'):
                if not o.get('setupFailed'):
                    k = (t, o.get('filename'), o.get('funcName') if t == 'subbuild' else None,
                         canon([o.get('args'), o.get('kwargs')]) if t == 'subbuild' else None)
                    if k in seen:
                        dup.append(str(k))
                    seen.add(k)
                walk(o.get('suboperations', []))
    walk(j.get('rootOperations', []))
    return dup


def cache_comparison_mismatches(snap, cache_rel, sb):
    """Invariant of a committed cache file: the comparison result recorded for
    a successfully built output (size + mtime_ns, or the SHA-256 of the bytes)
    is that of the file as the build left it (no driver function touches an
    output after its build_file call returned)."""
    entry = snap.get(cache_rel)
    if entry is None or entry[0] != 'f':
        return []
    try:
        j = json.loads(gzip.decompress(entry[1]))
    except Exception:
        return []
    bad = []

    def walk(ops):
        for o in ops:
            if o.get('type') == 'build_file' and not o.get('raised') and not o.get('setupFailed'):
                rel = sb.rel(o.get('filename'))
                f = snap.get(rel)
                rec = o.get('fileComparisonResult')
                if f is None or f[0] != 'f':
                    want = None
                elif o.get('fileComparison') == 'HASH':
                    want = hashlib.sha256(f[1]).hexdigest()
                else:
                    want = {'size': len(f[1]), 'timeNs': f[2]}
                if rec != want and want is not None:
                    bad.append([rel, o.get('fileComparison'), 'recorded %s, the file has %s' % (
                        json.dumps(rec, sort_keys=True)[:24], json.dumps(want, sort_keys=True)[:24])])
            if o.get('type') in ('build_file', 'subbuild'):
                walk(o.get('suboperations', []))
    walk(j.get('rootOperations', []))
    return bad


def cache_forest(snap, cache_rel, sb):
    """The committed cache file as the next build will see it, in a form that
    does not depend on the order in which threads finished: per build_file path
    / subbuild key the record (function, arguments, flags, return value,
    recorded queries with their answers, nested records), children sorted,
    paths relative, mtimes blanked (their order follows the schedule), the
    recorded comparison result reduced to 'matches the file'."""
    entry = snap.get(cache_rel)
    if entry is None or entry[0] != 'f':
        return None
    try:
        j = json.loads(gzip.decompress(entry[1]))
    except Exception:
        return '<undecodable>'
    R = sb.R

    def rel(x):
        if isinstance(x, str) and (x == R or x.startswith(R + '/')):
            return '<R>' + x[len(R):]
        if isinstance(x, list):
            return [rel(y) for y in x]
        if isinstance(x, dict):
            return {k: (0 if k == 'timeNs' else rel(v)) for k, v in x.items()}
        return x

    def node(o):
        t = o.get('type')
        if t in ('build_file', 'subbuild'):
            d = {'type': t, 'funcName': o.get('funcName'), 'args': rel(o.get('args')), 'kwargs': rel(o.get('kwargs')),
                 'raised': bool(o.get('raised')), 'setupFailed': bool(o.get('setupFailed')),
                 'returnValue': rel(o.get('returnValue')),
                 'sub': sorted(canon(node(x)) for x in o.get('suboperations', []))}
            if t == 'build_file':
                d['filename'] = rel(o.get('filename'))
                d['cmp'] = o.get('fileComparison')
                d['has_result'] = o.get('fileComparisonResult') is not None
            return d
        return {'type': t, 'args': rel(o.get('args')), 'returnValue': rel(o.get('returnValue')), 'exc': o.get('exceptionType')}
    return {'roots': sorted(canon(node(x)) for x in j.get('rootOperations', [])),
            'createdDirs': sorted(rel(x) for x in j.get('createdDirs', []))}


def _collect_times(j, out):
    if isinstance(j, dict):
        if 'timeNs' in j and isinstance(j['timeNs'], int):
            out.add(j['timeNs'])
        for v in j.values():
            _collect_times(v, out)
    elif isinstance(j, list):
        for v in j:
            _collect_times(v, out)


def _rename_times(j, rank):
    if isinstance(j, dict):
        return {k: (rank.get(v, v) if k == 'timeNs' and isinstance(v, int) else _rename_times(v, rank))
                for k, v in j.items()}
    if isinstance(j, list):
        return [_rename_times(v, rank) for v in j]
    return j


def run_spec(world, spec, upto=None):
    """Re-execute a history spec; returns the list of StepResults (None for
    mutations)."""
    world.cfg = spec.get('cfg', 'K0')
    world.cache_rel = CFG[world.cfg]
    world.cache = world.sb.p(world.cache_rel)
    world.mask_names = set(os.environ.get('FBMC_MASK', '').split()) if world.cfg == 'K1' else set()
    world.twin_on = bool(spec.get('twin'))
    world.start()
    out = []
    for st in spec['steps'][:upto]:
        if st['op'] == 'mut':
            world.mutate(st['m'])
            out.append(None)
        elif st['op'] == 'build':
            out.append(world.build(st['prog'], st.get('versions'), st.get('crash'), fault=st.get('fault')))
        elif st['op'] == 'clean':
            out.append(world.clean())
        elif st['op'] == 'note' and 'bulk2' in st:
            out.append(bulk2(world, st))
        elif st['op'] == 'note' and 'bulk' in st:
            N = st['bulk']
            for j in range(N):
                world.mutate(['w', 'f%05d' % j, 'A'])
            prog = {'level': 0, 'root': [{'k': 'bf', 'p': 'f%05d' % j, 'mode': 'ok', 'catch': False, 'ch': []}
                                         for j in range(N)] + ([{'k': 'raise'}] if st['tail'] == 'raise' else [])}
            out.append(world.build(prog, check_ref=False))
    return out


def bulk2(world, st):
    """C02 bulk scenario (also used by replay): N files f00000.. with rotating contents, either foreign ('foreign')
    or outputs of a committed build that were then modified ('prev'); one build overwrites all of them and then
    raises / commits.  The backup store changes its directory layout at 128 and 128*128 entries."""
    N, kind, tail = st['bulk2'], st['kind'], st['tail']
    keys = ('A', 'B', 'CC')
    names = ['f%05d' % j for j in range(N)]
    body = [{'k': 'bf', 'p': p, 'mode': 'ok', 'catch': False, 'ch': []} for p in names]
    if kind == 'prev':
        world.build({'level': 0, 'root': body}, check_ref=False)
    for j, p in enumerate(names):
        world.mutate(['w', p, keys[j % 3]])
    prog = {'level': 0, 'root': body + ([{'k': 'raise'}] if tail == 'raise' else [])}
    world.steps = [dict(st)]
    r = world.build(prog, check_ref=False)
    world.steps = [dict(st)]
    return r
