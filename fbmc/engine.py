"""Process pool, result merging, violations/replays, known findings, evidence.

Every check is a module ``fbmc.checks.<name>`` with
  tasks(tier, seed) -> list of JSON-able work units
  work(ctx, task)   -> partial result dict (merged by ``merge``)
run through ``run_check`` below.
"""
import atexit
import hashlib
import importlib
import json
import multiprocessing as mp
import os
import random
import shutil
import sys
import time
import traceback

from . import universe as uni

VERIF = os.path.dirname(os.path.dirname(os.path.abspath(__file__)))
NPROC = int(os.environ.get('FBMC_NPROC', '0')) or min(16, os.cpu_count() or 4)

_CTX = None


class Ctx:
    def __init__(self):
        self.fb = uni.import_library()
        self.sb = uni.Sandbox('w')
        self.deadline = None


def _init_worker(rundir):
    global _CTX
    os.environ['FBMC_RUNDIR'] = rundir
    _CTX = Ctx()


def _run_task(arg):
    modname, task, deadline = arg
    mod = importlib.import_module(modname)
    _CTX.deadline = deadline
    try:
        return mod.work(_CTX, task)
    except Exception:
        return {'harness_error': traceback.format_exc(), 'task': task}


class Result:
    """Merged outcome of a check run."""

    def __init__(self):
        self.counters = {}
        self.states = set()
        self.outcomes = set()
        self.violations = {}     # class key -> smallest violation
        self.vcount = 0
        self.samples = []
        self.capped = False
        self.harness_errors = []

    def merge(self, part):
        if part is None:
            return
        if 'harness_error' in part:
            self.harness_errors.append(part)
            return
        for k, v in part.get('counters', {}).items():
            self.counters[k] = self.counters.get(k, 0) + v
        self.states.update(part.get('states', ()))
        self.outcomes.update(part.get('outcomes', ()))
        for v in part.get('violations', ()):
            self.vcount += 1
            key = vclass(v)
            old = self.violations.get(key)
            if old is None or vsize(v) < vsize(old):
                self.violations[key] = v
        for s in part.get('samples', ()):
            if len(self.samples) < 6:
                self.samples.append(s)
        if part.get('capped'):
            self.capped = True


def vclass(v):
    return json.dumps([v.get('property'), v['clause'], v.get('facts', {})], sort_keys=True, default=str)


def vsize(v):
    return len(json.dumps(v.get('history', {}), default=str))


def run_pool(modname, tasks, deadline=None, nproc=None, into=None):
    nproc = nproc or NPROC
    rundir = os.path.join(uni.SCRATCH_BASE, 'fbmc.%07d' % os.getpid())
    shutil.rmtree(rundir, ignore_errors=True)
    os.makedirs(rundir)
    atexit.register(shutil.rmtree, rundir, True)
    res = into if into is not None else Result()
    try:
        if nproc == 1:
            _init_worker(rundir)
            for t in tasks:
                res.merge(_run_task((modname, t, deadline)))
        else:
            ctx = mp.get_context('fork')
            with ctx.Pool(nproc, initializer=_init_worker, initargs=(rundir,)) as pool:
                for part in pool.imap_unordered(
                        _run_task, [(modname, t, deadline) for t in tasks], chunksize=1):
                    res.merge(part)
    finally:
        try:
            os.chdir(VERIF)
        except OSError:
            pass
        shutil.rmtree(rundir, ignore_errors=True)
    return res


# ---------------------------------------------------------------------------
# known findings
# ---------------------------------------------------------------------------

def load_findings():
    p = os.path.join(VERIF, 'known_findings.json')
    if not os.path.exists(p):
        return []
    with open(p) as f:
        return json.load(f).get('findings', [])


def match_finding(v, findings):
    """An *open* entry matches iff property and clause are equal and every
    listed fact has the listed value."""
    for e in findings:
        if e.get('status') != 'open':
            continue
        if e['property'] != v.get('property') or e['clause'] != v['clause']:
            continue
        facts = v.get('facts', {})
        if all(json.dumps(facts.get(k), sort_keys=True, default=str) ==
               json.dumps(val, sort_keys=True, default=str)
               for k, val in e.get('facts', {}).items()):
            return e
    return None


# ---------------------------------------------------------------------------
# reporting
# ---------------------------------------------------------------------------

def write_replay(prop, v):
    d = os.path.join(VERIF, 'replays')
    os.makedirs(d, exist_ok=True)
    body = json.dumps(v, indent=1, sort_keys=True, default=str)
    name = '%s-%s.json' % (prop, hashlib.sha1(vclass(v).encode()).hexdigest()[:10])
    path = os.path.join(d, name)
    with open(path, 'w') as f:
        f.write(body + '\n')
    return path


def report(prop, tier, seed, level, res, coverage, wall, assumptions=()):
    """Prints VIOLATION / KNOWN-FINDING lines, writes evidence, returns the
    exit code."""
    findings = load_findings()
    d = os.path.join(VERIF, 'replays')
    if os.path.isdir(d):
        for n in os.listdir(d):
            if n.startswith(prop + '-') and n.endswith('.json'):
                os.remove(os.path.join(d, n))
    new, known = [], {}
    for key in sorted(res.violations):
        v = res.violations[key]
        e = match_finding(v, findings)
        if e is None:
            new.append(v)
        else:
            known.setdefault(e['id'], (e, v))
    for fid in sorted(known):
        e, v = known[fid]
        print('KNOWN-FINDING: property=%s %s [%s]' % (prop, e['text'], fid))
    code = 0
    for v in new[:20]:
        path = write_replay(prop, v)
        print('VIOLATION property=%s replay=%s' % (prop, path))
        print('   clause=%s facts=%s' % (v['clause'], json.dumps(v.get('facts', {}), default=str)))
        code = 1
    if len(new) > 20:
        print('   ... %d further violation classes not written out' % (len(new) - 20))
    if res.harness_errors:
        for h in res.harness_errors[:3]:
            print('HARNESS-ERROR', '\n'.join(h['harness_error'].splitlines()[-8:]), file=sys.stderr)
        code = code or 2
    cov = dict(coverage)
    cov.setdefault('samples', res.samples[:5] or ['(none)'])
    cov['counters'] = res.counters
    cov['violation_classes_new'] = len(new)
    cov['violation_classes_known'] = len(known)
    cov['capped'] = res.capped
    ev = {
        'property_id': prop, 'tier': tier, 'seed': seed, 'level': level,
        'coverage': cov, 'assumptions': list(assumptions),
        'wall_s': round(wall, 2), 'violations': len(new),
    }
    d = os.path.join(VERIF, 'evidence')
    os.makedirs(d, exist_ok=True)
    with open(os.path.join(d, prop + '.json'), 'w') as f:
        json.dump(ev, f, indent=1, sort_keys=True, default=str)
        f.write('\n')
    print('%s tier=%s seed=%d: %s  wall=%.1fs  new-violation-classes=%d known=%d%s' % (
        prop, tier, seed,
        ' '.join('%s=%s' % (k, cov[k]) for k in ('states', 'transitions', 'evaluations') if k in cov),
        wall, len(new), len(known), ' CAPPED' if res.capped else ''))
    return code
