"""Build programs as JSON and the one interpreter that drives both the real
FileBuilder and the reference model.  See DESIGN.md section 3.2.

A program is ``{'root': [stmt...], 'level': 0..3}``.

stmt (dict, key 'k'):
  bf   build_file:  p (rel path or {'spell':..}), cmp, mode, catch, wfirst,
                    ch [stmt...], args, kwargs, fn (optional explicit name),
                    usever (body mentions its version)
  sb   subbuild:    mode, catch, ch, args, kwargs, fn, usever
  q    query:       kind, p[, cmp]
  bat  full battery (every kind x every path of U + root)
  if   q (a query stmt), eq (expected answer), then [stmt...]
  raise            raise UserError here

modes: ok | rb (raise before write) | ra (raise after write) | nc (do not
create the file) | nj (return a non-JSON value)

Every function returns the list of everything it observed; a build_file body
writes a text derived from the same list.
"""
import hashlib
import json

from .universe import U

KINDS = ['exists', 'is_file', 'is_dir', 'list_dir', 'walk', 'get_size', 'read']
# Batteries inside cacheable functions leave out get_size: its value for a
# directory is unspecified (it changes with the directory's entries), so a
# record containing it may legitimately miss and caching would never be
# exercised.  The root function (never cached) uses the full set.
KINDS_CACHED = ['exists', 'is_file', 'is_dir', 'list_dir', 'walk', 'read']


class UserError(Exception):
    pass


class Crash(Exception):
    """Injected at a program point; never caught by generated code."""
    pass


CATCH = (UserError, OSError, RuntimeError, TypeError, ValueError)


class MyTypeError(TypeError):
    pass


# modes in which the user function raises (before writing) an exception of a
# class the library itself also raises / handles
USER_EXC_MODES = {'rT': TypeError, 'rS': MyTypeError, 'rO': FileNotFoundError, 'rR': RuntimeError}


def canon(v):
    return json.dumps(v, sort_keys=True, separators=(',', ':'))


def digest(v, n=10):
    return hashlib.sha1(canon(v).encode()).hexdigest()[:n]


def body_sig(n, level):
    """What the *body* of the function of call node n is (not its arguments
    or its target path): the function name is derived from this, so that two
    nodes share a name iff they share a body."""
    return [n['k'], n.get('mode', 'ok'), bool(n.get('wfirst')), level,
            bool(n.get('usever')), n.get('tag'), n.get('stamp'),
            [stmt_sig(s, level) for s in n.get('ch', [])]]


def stmt_sig(s, level):
    k = s['k']
    if k in ('bf', 'sb'):
        return [k, s.get('p'), s.get('cmp', 'METADATA'), s.get('args', []),
                s.get('kwargs', {}), bool(s.get('catch')), fname(s, level)]
    if k == 'if':
        return [k, stmt_sig(s['q'], level), s.get('eq'),
                [stmt_sig(t, level) for t in s.get('then', [])]]
    if k == 'q':
        return [k, s['kind'], s['p'], s.get('cmp', 'METADATA')]
    return [k]


def fname(n, level):
    if n.get('fn'):
        return n['fn']
    return ('f_' if n['k'] == 'bf' else 's_') + digest(body_sig(n, level), 8)


def call_nodes(stmts):
    for s in stmts:
        if s['k'] in ('bf', 'sb'):
            yield s
            yield from call_nodes(s.get('ch', []))
        elif s['k'] == 'if':
            yield from call_nodes(s.get('then', []))


class Interp:
    """One execution of a program against an Api object."""

    def __init__(self, prog, versions=None, crash_at=None, paths=None):
        self.prog = prog
        self.level = prog.get('level', 0)
        self.versions = versions or {}
        self.crash_at = crash_at
        self.npoints = 0
        self.invocations = []      # [fname, rel path | None, args, kwargs]
        self.paths = paths or U
        self.crash_obj = None
        self.user_exc = None       # the last exception object raised by user code
        self.pending = None
        self.stack = []            # ids of the call statements in progress
        self.fail_setup = {}       # call id -> exception class (Ref side of C14)
        self.identity_errors = []  # UserErrors that came back as another object
        self.fault_sid = None      # callable: id of the call in which an injected fault fired
        self.ids = {}
        self._number(prog['root'], 'r')

    def _number(self, stmts, prefix):
        for i, s in enumerate(stmts):
            sid = '%s.%d' % (prefix, i)
            self.ids[id(s)] = sid
            if s['k'] in ('bf', 'sb'):
                self._number(s.get('ch', []), sid)
            elif s['k'] == 'if':
                self._number(s.get('then', []), sid)

    def active_call(self):
        return self.stack[-1] if self.stack else None

    # -- program points -----------------------------------------------------
    def point(self):
        self.npoints += 1
        if self.crash_at is not None and self.npoints == self.crash_at:
            self.crash_obj = Crash('crash@%d' % self.npoints)
            raise self.crash_obj

    def raise_user(self, tag, cls=None):
        self.user_exc = (cls or UserError)(tag)
        self.pending = self.user_exc     # raised by user code, not yet caught by user code
        raise self.user_exc

    # -- entry ----------------------------------------------------------------
    def root(self, api):
        obs = []
        self.exec_stmts(api, self.prog['root'], obs)
        if self.level in (1, 2):
            obs.append(['bat', api.battery(self.paths, True)])
        self.point()
        return obs

    def exec_stmts(self, api, stmts, obs):
        for s in stmts:
            if self.level == 2:
                obs.append(['bat', api.battery(self.paths, api.is_root())])
            self.point()
            self.exec_stmt(api, s, obs)

    def exec_stmt(self, api, s, obs):
        k = s['k']
        if k in ('bf', 'sb'):
            fn = fname(s, self.level)
            args = s.get('args', [])
            kwargs = s.get('kwargs', {})
            body = (lambda a2, *ar, **kw: self.body(a2, s, fn, ar, kw))
            sid = self.ids.get(id(s))
            self.stack.append(sid)
            try:
                if sid in self.fail_setup:
                    raise self.fail_setup[sid]('injected setup failure')
                if k == 'bf':
                    r = api.build_file(s['p'], s.get('cmp', 'METADATA'), fn,
                                       body, args, kwargs)
                else:
                    r = api.subbuild(fn, body, args, kwargs)
                obs.append(['ok', r])
            except CATCH as e:
                if self.pending is not None and e is not self.pending:
                    self.identity_errors.append(sid)
                    self.pending = e
                if not s.get('catch'):
                    raise
                self.pending = None
                name = type(e).__name__
                if isinstance(e, OSError) and sid is not None and (
                        sid in self.fail_setup or (self.fault_sid and self.fault_sid() == sid)):
                    name = 'OSError*'     # an injected fault surfaced here: any OSError class will do
                obs.append(['exc', name])
            finally:
                self.stack.pop()
        elif k == 'q':
            obs.append(['q', s['kind'], s['p'],
                        api.query(s['kind'], s['p'], s.get('cmp', 'METADATA'))])
        elif k == 'bat':
            obs.append(['bat', api.battery(self.paths, api.is_root())])
        elif k == 'if':
            q = s['q']
            a = api.query(q['kind'], q['p'], q.get('cmp', 'METADATA'))
            obs.append(['q', q['kind'], q['p'], a])
            if a == s.get('eq'):
                self.exec_stmts(api, s.get('then', []), obs)
        elif k == 'raise':
            self.raise_user('root raise')
        else:
            raise ValueError('unknown stmt %r' % (s,))

    def body(self, api, n, fn, args, kwargs):
        """The user function of call node n."""
        # what the function "does" with its arguments depends on them only up to JSON equality
        # (1 == 1.0), as the library's contract requires; C07 checks the received objects type-exactly
        obs = [fn, jnorm(list(args)), jnorm(dict(kwargs))]
        self.invocations.append([fn, api.target_rel(), jcopy(list(args)), jcopy(dict(kwargs))])
        if n.get('usever'):
            # behaviour depends on the version only up to JSON equality (user obligation)
            obs.append(['ver', vtoken(self.versions.get(fn))])
        mode = n.get('mode', 'ok')
        isbf = n['k'] == 'bf'
        writes = isbf and mode in ('ok', 'ra', 'nj')
        self.point()
        if writes and n.get('wfirst'):
            api.write(content_of(obs), n.get('stamp') == 'fixed')
        self.exec_stmts(api, n.get('ch', []), obs)
        if self.level == 2:
            obs.append(['bat', api.battery(self.paths, False)])
        elif self.level == 3:
            t = api.target_rel()
            par = t.rsplit('/', 1)[0] if (t and '/' in t) else ''
            obs.append(['q', 'list_dir', par, api.query('list_dir', par, 'METADATA')])
            obs.append(['q', 'read', 'i', api.query('read', 'i', 'METADATA')])
        if mode == 'rb':
            self.raise_user('rb')
        if mode in USER_EXC_MODES:
            self.raise_user(mode, USER_EXC_MODES[mode])
        if writes and not n.get('wfirst'):
            api.write(content_of(obs), n.get('stamp') == 'fixed')
        self.point()
        if mode == 'ra':
            self.raise_user('ra')
        if mode == 'nj':
            return {1, 2}
        return obs


def jnorm(x):
    if isinstance(x, bool) or x is None or isinstance(x, str):
        return x
    if isinstance(x, float) and x.is_integer():
        return int(x)
    if isinstance(x, (list, tuple)):
        return [jnorm(y) for y in x]
    if isinstance(x, dict):
        return {k: jnorm(y) for k, y in x.items()}
    return x


def vtoken(v):
    return canon(jnorm(v))


def jcopy(v):
    return json.loads(json.dumps(v))


def content_of(obs):
    c = canon(obs)
    return hashlib.sha1(c.encode()).hexdigest()[:12] + 'x' * (len(c) % 5)


# ---------------------------------------------------------------------------
# comparison of observation lists (type-exact, with Ref's masked values)
# ---------------------------------------------------------------------------

def same(a, b):
    """Type-exact equality; 'DIRSIZE' on the Ref side matches any int."""
    if b == 'DIRSIZE' and isinstance(b, str):
        return a == 'DIRSIZE' or (isinstance(a, int) and not isinstance(a, bool))
    if type(a) is not type(b):
        return False
    if isinstance(a, list):
        return len(a) == len(b) and all(same(x, y) for x, y in zip(a, b))
    if isinstance(a, dict):
        return a.keys() == b.keys() and all(same(a[k], b[k]) for k in a)
    return a == b


def first_diff(a, b, path=()):
    """Locate the first difference; returns (path, real, ref)."""
    if same(a, b):
        return None
    if isinstance(a, list) and isinstance(b, list) and len(a) == len(b):
        for i, (x, y) in enumerate(zip(a, b)):
            if not same(x, y):
                if (isinstance(x, list) and len(x) == 4 and x[0] == 'q' and
                        isinstance(y, list) and len(y) == 4 and x[:3] == y[:3]):
                    return (path + (i,), x, y)
                return first_diff(x, y, path + (i,))
    return (path, a, b)
