"""Small-scope universe: sandbox directories, path alphabet, logical clock,
tree snapshots, external mutations.

Everything the checks do to the file system happens below one per-process
scratch directory on a tmpfs (``/dev/shm``), which also holds the private
TMPDIR: ``FileBackups`` moves files with ``os.rename`` into
``tempfile.gettempdir()`` and that fails across devices.
"""
import os
import shutil
import stat
import sys
import tempfile
import logging

REPO = os.environ.get('FBMC_REPO', '/repo')


def _scratch_base():
    b = os.environ.get('FBMC_SCRATCH')
    if b:
        return b
    if os.path.isdir('/dev/shm') and os.access('/dev/shm', os.W_OK):
        return '/dev/shm'
    return os.path.join(os.path.dirname(os.path.dirname(os.path.abspath(__file__))), '.scratch')


SCRATCH_BASE = _scratch_base()

# Path alphabet (relative to the sandbox root R).  Depths 1-3, two siblings in
# one directory, a directory name that is also used as a file name.
U = ['a', 'i', 'd', 'd/x', 'd/y', 'd/e', 'd/e/z']
CONTENTS = {'A': b'AAAA', 'B': b'BBBB', 'CC': b'CCCCCCC'}


def _long(n):
    # n non-periodic bytes (C13: files around and beyond the 1024-byte read unit of the hash loop)
    return bytes((i * 7 + i // 251) % 251 + 1 for i in range(n))


CONTENTS.update({'K1023': _long(1023), 'K1024': _long(1024), 'K1025': _long(1025), 'K1500': _long(1500),
                 'K2048': _long(2048), 'K3000': _long(3000)})


def import_library():
    """Import file_builder from the tree under test (never from /verif)."""
    if REPO not in sys.path:
        sys.path.insert(0, REPO)
    import file_builder  # noqa
    logging.disable(logging.CRITICAL)
    _own_directory_sizes()
    return file_builder


_DIRSIZE = 4096


def _own_directory_sizes():
    """The size the OS reports for a *directory* depends on the file system
    (constant on ext4, a function of the entries on tmpfs/btrfs).  It is an
    environment answer, so the harness decides it: directories have the
    constant size of an ext4 directory.  Sizes of regular files are real."""
    if getattr(os.path.getsize, '_fbmc', False):
        return
    import stat as _stat

    def getsize(filename):
        st = os.stat(filename)
        return _DIRSIZE if _stat.S_ISDIR(st.st_mode) else st.st_size
    getsize._fbmc = True
    os.path.getsize = getsize


class Sandbox:
    """A scratch area: root R, TMPDIR and room for saved trees."""

    def __init__(self, tag='w'):
        rundir = os.environ.get('FBMC_RUNDIR') or os.path.join(
            SCRATCH_BASE, 'fbmc.%d' % os.getpid())
        self.base = os.path.join(rundir, '%s%07d' % (tag[:1], os.getpid()))
        shutil.rmtree(self.base, ignore_errors=True)
        self.R = os.path.join(self.base, 'R')
        self.tmp = os.path.join(self.base, 'tmp')
        self.saves = os.path.join(self.base, 'sv')
        os.makedirs(self.R)
        os.makedirs(self.tmp)
        os.makedirs(self.saves)
        os.environ['TMPDIR'] = self.tmp
        tempfile.tempdir = self.tmp
        self.clock = 0
        self._nsave = 0
        os.chdir(self.R)

    # ---- logical clock -------------------------------------------------
    def tick(self):
        self.clock += 1
        return 1_000_000_000_000_000_000 + self.clock * 1_000_000

    FIXED_STAMP = 1_500_000_000_000_000_000

    def stamp(self, path, t=None):
        if t is None:
            t = self.tick()
        os.utime(path, ns=(t, t))
        return t

    # ---- paths -----------------------------------------------------------
    def p(self, rel):
        return self.R if rel in ('', '.') else os.path.join(self.R, rel)

    def rel(self, path):
        if path == self.R:
            return ''
        if path.startswith(self.R + '/'):
            return path[len(self.R) + 1:]
        return path

    # ---- lifecycle -------------------------------------------------------
    def reset(self):
        shutil.rmtree(self.R, ignore_errors=True)
        os.makedirs(self.R)
        for n in os.listdir(self.tmp):
            shutil.rmtree(os.path.join(self.tmp, n), ignore_errors=True)
        self.clock = 0
        os.chdir(self.R)

    def save(self):
        """Save the current tree (with mtimes); returns a handle."""
        self._nsave += 1
        dst = os.path.join(self.saves, 's%d' % self._nsave)
        shutil.copytree(self.R, dst, symlinks=True)
        _copy_dir_times(self.R, dst)
        return (dst, self.clock)

    def restore(self, handle):
        dst, clock = handle
        shutil.rmtree(self.R, ignore_errors=True)
        shutil.copytree(dst, self.R, symlinks=True)
        self.clock = clock
        os.chdir(self.R)

    def drop(self, handle):
        shutil.rmtree(handle[0], ignore_errors=True)

    def tmp_listing(self):
        return sorted(os.listdir(self.tmp))

    def destroy(self):
        try:
            os.chdir('/')
        except OSError:
            pass
        shutil.rmtree(self.base, ignore_errors=True)


def _copy_dir_times(src, dst):
    pass  # directory mtimes are never read by the library


def snap(root, with_ino=True):
    """Recursive snapshot: rel path -> ('d',) | ('f', bytes, mtime_ns, ino)."""
    out = {}
    stack = [(root, '')]
    while stack:
        d, rel = stack.pop()
        with os.scandir(d) as it:
            for e in it:
                r = e.name if not rel else rel + '/' + e.name
                if e.is_dir(follow_symlinks=False):
                    out[r] = ('d',)
                    stack.append((e.path, r))
                else:
                    st = e.stat(follow_symlinks=False)
                    with open(e.path, 'rb') as f:
                        b = f.read()
                    out[r] = ('f', b, st.st_mtime_ns, st.st_ino if with_ino else 0)
    return out


def plain(snapshot, cache_rel=None):
    """Snapshot reduced to (kind, bytes); the cache file's bytes are masked."""
    out = {}
    for r, v in snapshot.items():
        if v[0] == 'd':
            out[r] = ('d',)
        elif r == cache_rel:
            out[r] = ('f', b'<cache>')
        else:
            out[r] = ('f', v[1])
    return out


# ---------------------------------------------------------------------------
# External mutations.  A mutation is a JSON list [op, relpath, ...].
#   ['w', p, key]      write CONTENTS[key] with a fresh mtime
#   ['touch', p]       rewrite the same bytes with a fresh mtime
#   ['flip', p]        other bytes, same size, SAME mtime  (C13 only; 'flipend': the LAST byte instead of the first)
#   ['del', p]         delete regular file
#   ['mkdir', p]       mkdir (parent must exist)
#   ['rmdir', p]       rmdir if empty
#   ['rmtree', p]      remove directory recursively
#   ['f2d', p]         replace regular file by an empty directory
#   ['d2f', p, key]    replace directory (recursively) by a file
# ---------------------------------------------------------------------------

def mutation_alphabet(paths=U, extra_foreign=('d/j', 'd/e/j')):
    ms = []
    for p in paths:
        ms += [['w', p, 'A'], ['w', p, 'CC'], ['touch', p], ['del', p],
               ['mkdir', p], ['rmdir', p], ['rmtree', p], ['f2d', p],
               ['d2f', p, 'B']]
    for p in extra_foreign:
        ms.append(['w', p, 'A'])
    return ms


def apply_mutation(sb, m, ref_tree=None):
    """Apply m to the real tree (and the same edit to ref_tree, an in-memory
    VFS).  Returns False (nothing done) when m is not applicable."""
    op, p = m[0], sb.p(m[1])
    par = os.path.dirname(p)
    if op == 'w':
        if os.path.isdir(p) or not os.path.isdir(par) or os.path.islink(p):
            return False
        data = CONTENTS[m[2]]
        with open(p, 'wb') as f:
            f.write(data)
        sb.stamp(p)
        if ref_tree is not None:
            ref_tree.write(p, data)
        return True
    if op == 'touch':
        if not os.path.isfile(p):
            return False
        with open(p, 'rb') as f:
            data = f.read()
        with open(p, 'wb') as f:
            f.write(data)
        sb.stamp(p)
        if ref_tree is not None:
            ref_tree.touch(p)
        return True
    if op in ('flip', 'flipend'):
        if not os.path.isfile(p):
            return False
        st = os.stat(p)
        with open(p, 'rb') as f:
            data = f.read()
        if not data:
            return False
        new = (bytes([data[0] ^ 1]) + data[1:]) if op == 'flip' else (data[:-1] + bytes([data[-1] ^ 1]))
        with open(p, 'wb') as f:
            f.write(new)
        os.utime(p, ns=(st.st_atime_ns, st.st_mtime_ns))
        if ref_tree is not None:
            ref_tree.write_keep_meta(p, new)
        return True
    if op == 'touch1':
        # same bytes, mtime advanced by exactly one nanosecond
        if not os.path.isfile(p):
            return False
        st = os.stat(p)
        os.utime(p, ns=(st.st_atime_ns, st.st_mtime_ns + 1))
        if ref_tree is not None:
            ref_tree.touch(p)
        return True
    if op in ('grow', 'nul'):
        # other bytes AND other size, but the same mtime ('nul': the added byte is a NUL, which a hash
        # over zero-padded blocks would not see)
        if not os.path.isfile(p):
            return False
        st = os.stat(p)
        with open(p, 'rb') as f:
            data = f.read()
        new = data + (b'+' if op == 'grow' else b'\0')
        with open(p, 'wb') as f:
            f.write(new)
        os.utime(p, ns=(st.st_atime_ns, st.st_mtime_ns))
        if ref_tree is not None:
            ref_tree.write(p, new)
        return True
    if op == 'del':
        if not os.path.isfile(p):
            return False
        os.remove(p)
        if ref_tree is not None:
            ref_tree.remove(p)
        return True
    if op == 'mkdir':
        if os.path.lexists(p) or not os.path.isdir(par):
            return False
        os.mkdir(p)
        if ref_tree is not None:
            ref_tree.mkdir(p)
        return True
    if op == 'rmdir':
        if not os.path.isdir(p) or os.listdir(p):
            return False
        os.rmdir(p)
        if ref_tree is not None:
            ref_tree.rmtree(p)
        return True
    if op == 'rmtree':
        if not os.path.isdir(p) or not os.listdir(p):
            return False   # the empty case is 'rmdir'
        shutil.rmtree(p)
        if ref_tree is not None:
            ref_tree.rmtree(p)
        return True
    if op == 'f2d':
        if not os.path.isfile(p):
            return False
        os.remove(p)
        os.mkdir(p)
        if ref_tree is not None:
            ref_tree.remove(p)
            ref_tree.mkdir(p)
        return True
    if op == 'd2f':
        if not os.path.isdir(p):
            return False
        shutil.rmtree(p)
        data = CONTENTS[m[2]]
        with open(p, 'wb') as f:
            f.write(data)
        sb.stamp(p)
        if ref_tree is not None:
            ref_tree.rmtree(p)
            ref_tree.write(p, data)
        return True
    raise ValueError('unknown mutation %r' % (m,))
