"""C07 cache identity: for ALL ordered pairs of argument values (as positional
and as keyword argument), of path spellings and of function names: the second
call is rejected in the same build / served without invocation in the next
build if and only if name, normalised path and JSON-canonical arguments are
equal; the callee receives the JSON round-tripped arguments and the absolute
normalised str path."""
import collections
import os
import pathlib
import time

from .. import valmc
from ..valmc import trepr, canonform, json_roundtrip

PROP = 'C07'
ENGINE = 'checks.c07'


class MyStr(str):
    pass


def values(tier):
    V = list(valmc.ATOMS) + [
        [], [1], (1,), [1.0], [True], [1, 2], [2, 1], (1, 2), {}, {'a': 1}, {'a': 1.0}, {'a': True},
        {'a': 1, 'b': 2}, {'b': 2, 'a': 1}, {0: 'x'}, {'0': 'x'}, {None: 1}, {'null': 1}, {True: 1}, {'true': 1},
        [[1], [2]], [[2], [1]], {'a': [1, 2]}, {'a': (1, 2)}, {'a': {'b': None}}, {'a': {'b': None, 'c': None}},
        {'a': {}}, {'a': None}, {'b': None}, {0: 'a', '0': 'b'}, {'0': 'b', 0: 'a'}, {'0': 'a'}, {'0': 'b'},
        {None: 1, 'null': 2}, 2 ** 53 + 1, float(2 ** 53), 0.0, 'A', '\U0001F600',
    ]
    if tier != 'quick':
        V += [v for v in valmc.Values().exactly(2)] + ['\udcff', float('-inf'), {1.5: 1}, {'1.5': 1}, [None], [[]], [{}],
                                                   {'a': []}, {'a': ()}, -1, 1e22, 10 ** 22]
    return valmc.dedupe(V)


def spellings(sb):
    R = sb.R
    base = R + '/d/x'
    same = [base, 'd/x', os.fsencode(base), pathlib.Path(base), MyStr(base), R + '//d/x', R + '/d/./x',
            R + '/d/q/../x', base + '/', './d/x', pathlib.PurePosixPath('d') / 'x', os.fsencode('d//x')]
    other = [R + '/d/y', R + '/D/x', R + '/d/x ', R + '/d/xx', 'x']
    return same, other


def tasks(tier, seed):
    n = 32 if tier == 'quick' else 128
    return ([{'tier': tier, 'kind': 'args', 'slice': [i, n]} for i in range(n)] +
            [{'tier': tier, 'kind': 'paths'}, {'tier': tier, 'kind': 'names'}, {'tier': tier, 'kind': 'mixed'}])


class Acc:
    def __init__(self):
        self.counters = collections.Counter()
        self.violations = []
        self.outcomes = set()
        self.samples = []

    def bad(self, clause, facts, **detail):
        if len(self.violations) < 40:
            self.violations.append({'property': PROP, 'engine': ENGINE, 'clause': clause, 'facts': facts,
                                    'detail': detail, 'history': detail})


class BuildFailed(Exception):
    pass


def build(ctx, root):
    FB = ctx.fb.FileBuilder
    try:
        return FB.build(ctx.sb.p('c'), 'n', root)
    except Exception as e:
        raise BuildFailed(type(e).__name__ + ': ' + str(e)[:200])


def call(b, kind, sb, name, inv, a, kw, path=None):
    if kind == 'sb':
        def f(b2, *aa, **kk):
            inv.append((name, aa, kk))
            return len(inv)
        return b.subbuild(name, f, *a, **kw)

    def g(b2, p, *aa, **kk):
        inv.append((name, aa, kk, p))
        with open(p, 'w') as fh:
            fh.write('x')
        return len(inv)
    return b.build_file(path if path is not None else sb.p('d/x'), name, g, *a, **kw)


def as_args(v, passing):
    return ((v,), {}) if passing == 'pos' else ((), {'k': v})


def work(ctx, task):
    acc = Acc()
    try:
        return _work(ctx, task, acc)
    except BuildFailed as e:
        acc.bad('identity.unexpected_exception', {'task': task['kind']}, error=str(e))
        return {'counters': dict(acc.counters), 'violations': acc.violations, 'outcomes': acc.outcomes,
                'samples': acc.samples, 'states': set()}


def _work(ctx, task, acc):
    sb = ctx.sb
    if task['kind'] == 'args':
        V = values(task['tier'])
        i, n = task['slice']
        canon = [canonform(json_roundtrip(v)) for v in V]
        for a in range(i, len(V), n):
            v1 = V[a]
            for passing in ('pos', 'kw'):
                a1, k1 = as_args(v1, passing)
                for kind in ('sb', 'bf'):
                    # build 1 with v1, saved; every v2 replayed on a copy
                    sb.reset()
                    inv = []
                    build(ctx, lambda b: call(b, kind, sb, 'f', inv, a1, k1))
                    acc.counters['builds'] += 1
                    got = inv[0][1:3]
                    want = (tuple(json_roundtrip(list(a1))), json_roundtrip(k1))
                    if trepr(got[0]) != trepr(want[0]) or trepr(got[1]) != trepr(want[1]):
                        acc.bad('identity.received_args', {'passing': passing, 'kind': kind},
                                passed=trepr(v1), received=trepr(list(got)), want=trepr(list(want)))
                    h = sb.save()
                    for bidx, v2 in enumerate(V):
                        a2, k2 = as_args(v2, passing)
                        equal = canon[a] == canon[bidx]
                        sb.restore(h)
                        inv2 = []
                        build(ctx, lambda b: call(b, kind, sb, 'f', inv2, a2, k2))
                        acc.counters['builds'] += 1
                        acc.counters['pairs_next_build'] += 1
                        if bool(inv2) != (not equal):
                            acc.bad('identity.next_build', {'kind': kind, 'passing': passing, 'equal': equal,
                                                            'invoked': bool(inv2)}, v1=trepr(v1), v2=trepr(v2))
                        acc.outcomes.add((kind, passing, equal, bool(inv2)))
                        if kind == 'sb':
                            sb.reset()
                            inv3 = []

                            def root(b):
                                call(b, 'sb', sb, 'f', inv3, a1, k1)
                                try:
                                    call(b, 'sb', sb, 'f', inv3, a2, k2)
                                    return 'accepted'
                                except RuntimeError:
                                    return 'rejected'
                            r = build(ctx, root)
                            acc.counters['builds'] += 1
                            acc.counters['pairs_same_build'] += 1
                            if (r == 'rejected') != equal or len(inv3) != (1 if equal else 2):
                                acc.bad('identity.same_build', {'equal': equal, 'result': r, 'passing': passing},
                                        v1=trepr(v1), v2=trepr(v2), invocations=len(inv3))
                    sb.drop(h)
        if i == 0:
            acc.samples.append({'values': [trepr(v) for v in V[:50]], 'count': len(V)})
            acc.counters['values'] = len(V)
            acc.counters['classes'] = len(set(canon))
    elif task['kind'] == 'paths':
        same, other = spellings(sb)
        allsp = same + other
        norm = [os.path.abspath(os.fsdecode(s)) for s in allsp]
        for a, s1 in enumerate(allsp):
            for bidx, s2 in enumerate(allsp):
                equal = norm[a] == norm[bidx]
                sb.reset()
                os.chdir(sb.R)
                inv = []

                def root(b):
                    call(b, 'bf', sb, 'f', inv, (), {}, path=s1)
                    try:
                        call(b, 'bf', sb, 'f', inv, (), {}, path=s2)
                        return 'accepted'
                    except RuntimeError:
                        return 'rejected'
                r = build(ctx, root)
                acc.counters['builds'] += 1
                acc.counters['spelling_pairs'] += 1
                if (r == 'rejected') != equal:
                    acc.bad('identity.path_same_build', {'equal': equal, 'result': r}, s1=repr(s1), s2=repr(s2))
                p = inv[0][3]
                if type(p) is not str or p != norm[a]:
                    acc.bad('identity.received_path', {}, passed=repr(s1), received=repr(p), want=norm[a])
                # next build
                sb.reset()
                inv1, inv2 = [], []
                build(ctx, lambda b: call(b, 'bf', sb, 'f', inv1, (), {}, path=s1))
                build(ctx, lambda b: call(b, 'bf', sb, 'f', inv2, (), {}, path=s2))
                acc.counters['builds'] += 2
                if bool(inv2) != (not equal):
                    acc.bad('identity.path_next_build', {'equal': equal, 'invoked': bool(inv2)}, s1=repr(s1), s2=repr(s2))
                acc.outcomes.add(('path', equal, r, bool(inv2)))
        acc.samples.append({'spellings': [repr(s) for s in allsp]})
    elif task['kind'] == 'mixed':
        # the boundary between positional and keyword arguments is part of the identity
        V = values('quick')[:25]
        shapes = [lambda v: (('k', v), {}), lambda v: ((), {'k': v}), lambda v: (('k',), {'v': v}), lambda v: ((['k', v],), {}),
                  lambda v: (({'k': v},), {}), lambda v: ((v, 'k'), {}), lambda v: ((v,), {'k': 'k'})]
        for v in V:
            for i1, s1 in enumerate(shapes):
                for i2, s2 in enumerate(shapes):
                    a1, k1 = s1(v)
                    a2, k2 = s2(v)
                    equal = i1 == i2
                    for kind in ('sb', 'bf'):
                        sb.reset()
                        inv1, inv2 = [], []
                        build(ctx, lambda b: call(b, kind, sb, 'f', inv1, a1, k1))
                        build(ctx, lambda b: call(b, kind, sb, 'f', inv2, a2, k2))
                        acc.counters['builds'] += 2
                        acc.counters['mixed_pairs'] += 1
                        if bool(inv2) != (not equal):
                            acc.bad('identity.mixed_next_build', {'kind': kind, 'equal': equal, 'invoked': bool(inv2)},
                                    first=trepr([list(a1), k1]), second=trepr([list(a2), k2]))
                    if not equal:
                        sb.reset()
                        inv = []

                        def root(b):
                            call(b, 'sb', sb, 'f', inv, a1, k1)
                            call(b, 'sb', sb, 'f', inv, a2, k2)
                            return 'both accepted'
                        try:
                            build(ctx, root)
                        except BuildFailed as e:
                            acc.bad('identity.mixed_same_build', {}, first=trepr([list(a1), k1]), second=trepr([list(a2), k2]), error=str(e)[:80])
                        acc.counters['builds'] += 1
        acc.samples.append({'mixed_shapes': 7, 'values': len(V)})
    else:
        # function names: different names never share an entry
        for kind in ('sb', 'bf'):
            for n1, n2 in [('f', 'f'), ('f', 'g'), ('f', 'F'), ('f', 'f '), ('', 'f'), ('f', '')]:
                sb.reset()
                inv1, inv2 = [], []
                build(ctx, lambda b: call(b, kind, sb, n1, inv1, (1,), {}))
                build(ctx, lambda b: call(b, kind, sb, n2, inv2, (1,), {}))
                acc.counters['builds'] += 2
                acc.counters['name_pairs'] += 1
                if bool(inv2) != (n1 != n2):
                    acc.bad('identity.name_next_build', {'kind': kind, 'equal': n1 == n2, 'invoked': bool(inv2)}, n1=n1, n2=n2)
                if kind == 'sb':
                    sb.reset()
                    inv = []

                    def root(b):
                        call(b, 'sb', sb, n1, inv, (1,), {})
                        try:
                            call(b, 'sb', sb, n2, inv, (1,), {})
                            return 'accepted'
                        except RuntimeError:
                            return 'rejected'
                    r = build(ctx, root)
                    acc.counters['builds'] += 1
                    if (r == 'rejected') != (n1 == n2):
                        acc.bad('identity.name_same_build', {'equal': n1 == n2, 'result': r}, n1=n1, n2=n2)
                acc.outcomes.add(('name', kind, n1 == n2, bool(inv2)))
    return {'counters': dict(acc.counters), 'violations': acc.violations, 'outcomes': acc.outcomes,
            'samples': acc.samples, 'states': set()}


def coverage(res, tier):
    c = res.counters
    return {
        'states': c.get('values', 0) + 17,
        'transitions': c.get('builds', 0),
        'traces_validated_against_impl': c.get('builds', 0),
        'argument_values': c.get('values', 0),
        'equivalence_classes': c.get('classes', 0),
        'ordered_pairs_next_build': c.get('pairs_next_build', 0),
        'ordered_pairs_same_build': c.get('pairs_same_build', 0),
        'spelling_pairs': c.get('spelling_pairs', 0),
        'name_pairs': c.get('name_pairs', 0),
        'positional_keyword_shape_pairs': c.get('mixed_pairs', 0),
        'distinct_outcomes': len(res.outcomes),
        'exhaustive': True,
        'rule': 'states = argument values + path spellings; transitions = real builds executed. Every ordered pair '
                '(v1, v2) of the value set, as positional and as keyword argument, for subbuild and build_file: '
                'build{f(v1)}; build{f(v2)} must invoke f in the second build iff the independent canonical forms '
                'differ; build{f(v1); try f(v2)} must reject the second call iff they are equal. Every ordered pair '
                'of 17 path spellings (12 of one file, 5 of others) likewise; received arguments/path compared '
                'type-exactly with json.loads(json.dumps(.)) / os.path.abspath(os.fsdecode(.)).',
    }


def replay(v):
    print('recorded: clause=%s facts=%s detail=%s' % (v['clause'], v['facts'], v['detail']))
    print('(re-run ./check C07 to reproduce: the pair is named above)')
    return 1
