"""C03 foreign files and directories: a model-free monitor around every API
call (commit, roll back, clean): every regular file that is not the cache
file, not passed to build_file in this call and not a recorded previous output
keeps inode, bytes and mtime; every directory that disappears was created by
a build and held nothing foreign; after a rolled-back build every file is
back.  Foreign files/dirs are planted at every path role."""
import time

from .. import gen
from ..history import World
from ..universe import mutation_alphabet
from .common import Acc, relevant_mutations, outcome_sig

PROP = 'C03'

BFS = {'thorough': 4}          # depth of the explicit-state search over arbitrary action sequences (fbmc/bfs.py)
BFS_CLAUSES = ('foreign.',)


def spaces(tier):
    small = dict(paths=['a', 'd', 'd/x', 'd/y', 'd/e/z'], bf_modes=['ok', 'rb', 'ra'], sb_modes=['ok'])
    viol = dict(paths=['d', 'd/x', 'd/e', 'd/e/z'], bf_modes=['ok', 'ra'], sb_modes=[], catches=(True,), oblig=False)
    if tier == 'quick':
        return [
            dict(size=1, level=0, cfg='K0', t0=list(gen.T0S), mut='all'),
            dict(family='pairs', size=1, level=0, cfg='K0', t0=['empty', 'full', 'dir_d_j'], mut='plant'),
            dict(size=2, level=0, cfg='K0', t0=['file_d', 'file_d_e', 'full'], mut='none', kw=viol, crash='all'),
            dict(size=2, level=0, cfg='K0', t0=['dir_d_j', 'full'], mut='plant', kw=small),
            dict(family='bulk', size=1, level=0, cfg='K0', t0=['empty'], mut='none', ns=[1, 127, 128, 129, 130, 257]),
        ]
    return [
        dict(size=1, level=l, cfg=c, t0=list(gen.T0S), mut='all') for l in (0, 1) for c in ('K0', 'K1')
    ] + [
        dict(family='pairs', size=1, level=0, cfg='K0', t0=list(gen.T0S), mut='plant'),
        dict(size=2, level=0, cfg='K0', t0=list(gen.T0S), mut='none', kw=dict(oblig=False), crash='all'),
        dict(size=2, level=0, cfg='K0', t0=['dir_d_j', 'full', 'file_d'], mut='rel'),
        dict(family='bulk', size=1, level=0, cfg='K0', t0=['empty'], mut='none', ns=[1, 127, 128, 129, 130, 257, 128 * 128 + 2]),
    ]


def tasks(tier, seed):
    out = []
    for si, sp in enumerate(spaces(tier)):
        if sp.get('family') == 'bulk':
            for i in range(len(sp['ns'])):
                out.append({'tier': tier, 'space': si, 'slice': [i, len(sp['ns'])]})
            continue
        n = 16 if (sp['size'] == 1 and sp.get('family') != 'pairs') else 64
        for i in range(n):
            out.append({'tier': tier, 'space': si, 'slice': [i, n]})
    return out


def plant_mutations(world, prog):
    """Foreign files planted where they hurt: inside every directory that
    exists now, at every output position, and created dirs replaced by files."""
    ms = [None]
    snap = world.ref.fs.as_plain(world.sb.rel)
    for r, v in sorted(snap.items()):
        if v[0] == 'd':
            ms.append(['w', r + '/j', 'A'])
            ms.append(['d2f', r, 'B'])
            ms.append(['rmtree', r])
        elif r != world.cache_rel:
            ms.append(['w', r, 'A'])
            ms.append(['f2d', r])
            ms.append(['del', r])
    return ms


def pair_programs(level):
    A = list(gen.nodes(idx=1))
    for a in A:
        for b in A:
            yield ({'level': level, 'root': [dict(a)]}, {'level': level, 'root': [dict(b)]})


def work(ctx, task):
    sp = spaces(task['tier'])[task['space']]
    i, n = task['slice']
    acc = Acc(PROP)
    world = World(ctx.sb, ctx.fb, sp['cfg'])
    full = mutation_alphabet()
    capped = False
    if sp.get('family') == 'bulk':
        return bulk(ctx, sp, i, acc, world)
    if sp.get('family') == 'pairs':
        it = pair_programs(sp['level'])
    else:
        it = ((p, p) for p in gen.family(sp))
    for pi, (P, Q) in enumerate(it):
        if pi % n != i:
            continue
        if ctx.deadline and time.time() > ctx.deadline:
            capped = True
            break
        acc.count('programs')
        for t0 in sp['t0']:
            world.start()
            for m in gen.T0S[t0]:
                world.mutate(m)
            r1 = world.build(P)
            acc.take(world, r1)
            if sp.get('crash') == 'all':
                # every crash point of the first build, on top of the foreign files of T0
                for k in range(1, r1.npoints + 1):
                    world.start()
                    for m in gen.T0S[t0]:
                        world.mutate(m)
                    r = world.build(P, crash_at=k)
                    acc.count('histories')
                    acc.take(world, r)
                    acc.outcome('crash', outcome_sig(r))
                continue
            h = world.save()
            if sp['mut'] == 'all':
                muts = [None] + full
            elif sp['mut'] == 'plant':
                muts = plant_mutations(world, P)
            elif sp['mut'] == 'none':
                muts = [None]
            else:
                muts = [None] + relevant_mutations(P, full)
            for m in muts:
                for shape in ('build', 'crash', 'clean'):
                    world.restore(h)
                    if m is not None and not world.mutate(m):
                        break
                    acc.count('histories')
                    if shape == 'build':
                        r = world.build(Q)
                        acc.take(world, r)
                        c = world.clean()
                        acc.take(world, c)
                        acc.outcome(shape, outcome_sig(r), outcome_sig(c))
                    elif shape == 'crash':
                        r = world.build(Q, crash_at=max(1, r1.npoints))
                        acc.take(world, r)
                        acc.outcome(shape, outcome_sig(r))
                    else:
                        c = world.clean()
                        acc.take(world, c)
                        acc.outcome(shape, outcome_sig(c))
                if not acc.samples and m is not None:
                    acc.samples.append({'history': world.spec()})
            world.drop(h)
    return acc.result(world, capped)


def bulk(ctx, sp, i, acc, world):
    """N foreign files overwritten by one build that then fails: every one of
    them must be back (the backup store changes layout at 128 entries)."""
    N = sp['ns'][i]
    for tail in ('raise', 'ok'):
        world.start()
        for j in range(N):
            world.mutate(['w', 'f%05d' % j, 'A'])
        prog = {'level': 0, 'root': [{'k': 'bf', 'p': 'f%05d' % j, 'mode': 'ok', 'catch': False, 'ch': []}
                                     for j in range(N)] + ([{'k': 'raise'}] if tail == 'raise' else [])}
        world.steps = [{'op': 'note', 'bulk': N, 'tail': tail}]
        r = world.build(prog, check_ref=False)
        world.steps = [{'op': 'note', 'bulk': N, 'tail': tail}]
        acc.count('histories')
        acc.count('programs')
        acc.take(world, r)
        acc.outcome('bulk', N, tail, r.real[0])
        if tail == 'ok':
            c = world.clean()
            acc.take(world, c)
    return acc.result(world, False)


def coverage(res, tier):
    return {
        'states': len(res.states),
        'transitions': res.counters.get('transitions', 0),
        'traces_validated_against_impl': res.counters.get('transitions', 0),
        'programs': res.counters.get('programs', 0),
        'histories': res.counters.get('histories', 0),
        'distinct_outcomes': len(res.outcomes),
        'exhaustive': not res.capped,
        'bounds': [dict(family=s.get('family', 'skel'), size=s['size'], level=s['level'], cfg=s['cfg'], t0=s['t0'],
                        mutations=s['mut'], restriction={k: v for k, v in s.get('kw', {}).items()}) for s in spaces(tier)],
        'rule': 'T0 (foreign files/dirs at every path role); build P; plant/mutate (inside every existing directory, '
                'at every output position, directory<->file replacements); then build Q / crashing build Q / clean; '
                'clean. The monitor compares inode+bytes+mtime of every unmanaged file and the directory set before '
                'and after each call; it uses no model. Includes programs that nest an output below another output '
                '(outside the documented obligations) because the safety invariant must hold there too.',
    }
