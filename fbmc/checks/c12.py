"""C12 clean: `clean` inserted at every position of every generated history
(after commits, after rollbacks, after external tampering, after a previous
clean); tree after clean = Ref's clean, second clean is the identity, FOREIGN
holds, and the build after clean behaves like a first build (EQ-REF)."""
import time

from .. import gen
from ..history import World
from ..universe import mutation_alphabet
from .common import Acc, relevant_mutations, outcome_sig

PROP = 'C12'
ALSO = ('eqref.result_class', 'eqref.value', 'eqref.answer', 'eqref.tree')   # only for the build *after* clean

BFS = {'quick': 3, 'thorough': 4}          # depth of the explicit-state search over arbitrary action sequences (fbmc/bfs.py)
BFS_CLAUSES = ('clean.', 'eqref.')


def spaces(tier):
    small = dict(paths=['a', 'd', 'd/x', 'd/y', 'd/e/z'], bf_modes=['ok', 'rb', 'ra'], sb_modes=['ok', 'rb'])
    if tier == 'quick':
        return [
            dict(size=1, level=0, cfg='K0', t0=['empty', 'full', 'dir_d_j', 'dir_d_e'], mut='all'),
            dict(size=1, level=0, cfg='K1', t0=['empty', 'dir_d_j'], mut='rel'),
            dict(size=2, level=0, cfg='K1', t0=['empty'], mut='none',
                 kw=dict(paths=['a', 'k/x', 'k/y/z'], bf_modes=['ok', 'rb', 'ra'], sb_modes=['ok'])),
            dict(size=2, level=0, cfg='K0', t0=['empty', 'dir_d_j'], mut='rel', kw=small),
            dict(family='chain3', size=3, level=0, cfg='K0', t0=['empty'], mut='none'),
        ]
    return [
        dict(size=1, level=l, cfg=c, t0=list(gen.T0S), mut='all') for l in (0, 1) for c in ('K0', 'K1')
    ] + [
        dict(size=2, level=0, cfg=c, t0=['empty', 'dir_d_j', 'full', 'file_d'], mut='rel') for c in ('K0', 'K1')
    ] + [
        dict(family='chain3', size=3, level=0, cfg='K0', t0=['empty', 'dir_d_j'], mut='outputs'),
    ]


def tasks(tier, seed):
    out = []
    for si, sp in enumerate(spaces(tier)):
        n = 16 if sp['size'] == 1 else 64
        for i in range(n):
            out.append({'tier': tier, 'space': si, 'slice': [i, n]})
    return out


def work(ctx, task):
    sp = spaces(task['tier'])[task['space']]
    i, n = task['slice']
    acc = Acc(PROP)
    world = World(ctx.sb, ctx.fb, sp['cfg'])
    full = mutation_alphabet()
    capped = False
    for pi, prog in enumerate(gen.family(sp)):
        if pi % n != i:
            continue
        if ctx.deadline and time.time() > ctx.deadline:
            capped = True
            break
        acc.count('programs')
        if sp['mut'] == 'all':
            muts = [None] + full
        elif sp['mut'] == 'none':
            muts = [None]
        elif sp['mut'] == 'outputs':
            muts = [None] + [[op, p] + (['A'] if op == 'w' else []) for p in sorted(set(gen.bf_paths(prog['root'])))
                             for op in ('del', 'w', 'f2d')]
        else:
            muts = [None] + relevant_mutations(prog, full)
        for t0 in sp['t0']:
            world.start()
            for m in gen.T0S[t0]:
                world.mutate(m)
            # clean before any build: nothing to do
            r = world.clean()
            acc.take(world, r)
            r1 = world.build(prog)
            if world.diverged:
                continue
            h = world.save()
            for m in muts:
                for shape in ('clean', 'build+clean', 'crash+clean'):
                    world.restore(h)
                    if m is not None and not world.mutate(m):
                        break
                    acc.count('histories')
                    ok = True
                    if shape == 'build+clean':
                        r = world.build(prog)
                        ok = not world.diverged
                    elif shape == 'crash+clean':
                        r = world.build(prog, crash_at=max(1, r1.npoints - 1))
                    if not ok:
                        continue
                    c1 = world.clean()
                    if acc.take(world, c1) or world.diverged:
                        continue
                    c2 = world.clean()
                    if acc.take(world, c2):
                        continue
                    if c2.after != c1.after:
                        v = {'clause': 'clean.not_idempotent', 'facts': {}, 'detail': {}, 'property': PROP,
                             'history': world.spec()}
                        acc.violations.append(v)
                    b = world.build(prog)
                    acc.take(world, b, also=ALSO)
                    if b.real[0] == 'ok' and b.ref[0] == 'ok' and b.real_inv != b.ref_inv:
                        acc.violations.append({'clause': 'clean.next_build_not_first', 'facts': {}, 'property': PROP,
                                               'detail': {'real': b.real_inv, 'ref': b.ref_inv}, 'history': world.spec()})
                    acc.outcome(shape, outcome_sig(c1), outcome_sig(b))
                    if not acc.samples and m is not None:
                        acc.samples.append({'history': world.spec()})
            world.drop(h)
    return acc.result(world, capped)


def coverage(res, tier):
    return {
        'states': len(res.states),
        'transitions': res.counters.get('transitions', 0),
        'traces_validated_against_impl': res.counters.get('transitions', 0),
        'programs': res.counters.get('programs', 0),
        'histories': res.counters.get('histories', 0),
        'distinct_outcomes': len(res.outcomes),
        'exhaustive': not res.capped,
        'bounds': [dict(family=s.get('family', 'skel'), size=s['size'], level=s['level'], cfg=s['cfg'], t0=s['t0'],
                        mutations=s['mut'], restriction=s.get('kw', {})) for s in spaces(tier)],
        'rule': 'every program x initial tree x mutation; histories: clean(no cache); build P; m; then each of '
                '{clean | build,clean | crashing build,clean}; clean; build P. Oracles: tree after clean = reference '
                'model, second clean identical, foreign-file monitor, next build = first build (value, tree, '
                'invocation log equal to the from-scratch model)',
    }
