"""C18 JSON helper laws, decided by exhaustive enumeration of all values up to a
node bound over an atom set chosen to collide, and of all ordered pairs of the
(sanitised, de-duplicated) value set."""
import base64
import collections
import enum
import json
import pickle
import sys
import time

from .. import universe as uni
from .. import valmc
from ..valmc import trepr, canonform, json_roundtrip, shares_mutable

PROP = 'C18'
ENGINE = 'checks.c18'


def bounds(tier):
    if tier == 'quick':
        return dict(unary_nodes=3, pair_nodes=2, pair_extra_nodes=3, extra_atoms=False, nslices=64)
    return dict(unary_nodes=4, pair_nodes=3, pair_extra_nodes=3, extra_atoms=True, nslices=256)


def value_set(b, n):
    atoms = valmc.ATOMS + (valmc.EXTRA_ATOMS if b['extra_atoms'] else [])
    return valmc.Values(atoms=atoms).upto(n)


_PAIRSET = {}


def pair_set(b):
    """Distinct sanitised values (plus their tuple-ised variants): the domain
    of is_equal / to_hashable."""
    key = json.dumps(b, sort_keys=True)
    if key not in _PAIRSET:
        raw = value_set(b, b['pair_nodes'])
        # 3-node values over a reduced atom set: two-entry dicts, nested pairs
        small = valmc.Values(atoms=[None, False, True, 0, 1, 1.0, '', '0'],
                             keys=['', '0', 'true', 0, True, None]).exactly(b['pair_extra_nodes'])
        vals = []
        for v in raw + small:
            s = json_roundtrip(v)
            vals.append(s)
            t = valmc.tupleize(s)
            vals.append(t)
        _PAIRSET[key] = valmc.dedupe(vals)
    return _PAIRSET[key]


class MyStr(str):
    pass


class MyInt(int):
    pass


class MyFloat(float):
    pass


class MyList(list):
    pass


class MyDict(dict):
    pass


class MyTuple(tuple):
    pass


NT = collections.namedtuple('NT', 'a b')


class IE(enum.IntEnum):
    ONE = 1


class SE(str, enum.Enum):
    RED = 'red'


class LoudInt(int):
    def __int__(self):
        return 99

    def __str__(self):
        return 'loud'


class LoudFloat(float):
    def __float__(self):
        return 9.5

    def __str__(self):
        return 'loudf'


class LoudStr(str):
    def __str__(self):
        return 'LOUD'


def subclass_values():
    return [MyStr('s'), MyInt(3), MyFloat(1.5), MyList([1, MyStr('x')]), MyDict({MyStr('k'): MyInt(1)}),
            MyTuple((1, 2)), NT(1, [2]), collections.OrderedDict([('b', 1), ('a', 2)]), IE.ONE,
            {MyInt(0): 1}, {MyFloat(1.5): 1}, [MyTuple(())], {'a': MyList()}, {IE.ONE: 1},
            SE.RED, [SE.RED], {SE.RED: SE.RED}, {'k': SE.RED}, LoudInt(3), LoudFloat(1.5), LoudStr('quiet'),
            {LoudStr('quiet'): LoudInt(3)}, {LoudInt(3): LoudFloat(1.5)}, {LoudFloat(2.5): 1}]


def surrogate_values():
    """Strings json accepts although they are not well-formed Unicode: json.dumps
    escapes every surrogate code point, json.loads joins an adjacent high+low
    pair into one character and leaves lone ones alone."""
    hi, lo = '\ud83d', '\ude00'
    strs = [hi + lo, 'a' + hi + lo + 'b', hi, lo, lo + hi, hi + lo + hi + lo, hi + hi + lo, hi + 'x' + lo]
    out = list(strs)
    for x in strs:
        out += [[x], {x: 1}, {'k': x}, {x: x}, [[x], {'k': [x]}]]
    return out


def nonjson_values():
    class O:
        pass
    vals = [set(), frozenset(), b'x', bytearray(b'x'), O(), 1j, range(3), object, len]
    out = list(vals)
    for v in vals:
        out += [[v], (v,), {'a': v}, [[v]], {'a': [1, v]}]
    out += [{(1,): 1}, {b'k': 1}, {frozenset(): 1}, [{(1, 2): 3}]]
    return out


def tasks(tier, seed):
    b = bounds(tier)
    n = b['nslices']
    return ([{'tier': tier, 'kind': 'unary', 'slice': [i, n]} for i in range(n)] +
            [{'tier': tier, 'kind': 'pairs', 'slice': [i, n]} for i in range(n)] +
            [{'tier': tier, 'kind': 'special'}])


def pack(*vals):
    return base64.b64encode(pickle.dumps(vals)).decode()


class Acc:
    def __init__(self):
        self.counters = collections.Counter()
        self.violations = []
        self.outcomes = set()
        self.samples = []

    def bad(self, clause, facts, vals, **detail):
        if len(self.violations) < 50:
            self.violations.append({'property': PROP, 'engine': ENGINE, 'clause': clause, 'facts': facts,
                                    'detail': detail, 'history': {'values': [trepr(v) for v in vals], 'pickle': pack(*vals)}})


def check_unary(J, v, acc):
    """sanitize laws for one JSON-representable value."""
    want = json_roundtrip(v)
    try:
        got = J.sanitize(v)
    except Exception as e:
        acc.bad('json.sanitize_raised', {'exc': type(e).__name__}, [v])
        return
    if trepr(got) != trepr(want):
        acc.bad('json.sanitize_roundtrip', {}, [v], got=trepr(got), want=trepr(want))
        return
    again = J.sanitize(got)
    if trepr(again) != trepr(got):
        acc.bad('json.sanitize_idempotent', {}, [v], got=trepr(again))
    if shares_mutable(v, got):
        acc.bad('json.sanitize_aliasing', {}, [v])
    # reflexivity + hashability on the sanitised form
    try:
        h = J.to_hashable(got)
        hash(h)
    except Exception as e:
        acc.bad('json.hashable_raised', {'exc': type(e).__name__}, [v])
        return
    if not J.is_equal(got, got):
        acc.bad('json.is_equal_reflexive', {}, [v])
    t = valmc.tupleize(got)
    if not J.is_equal(got, t) or not J.is_equal(t, got):
        acc.bad('json.list_tuple', {}, [v])


def work(ctx, task):
    J = ctx.fb.json_util.JsonUtil if hasattr(ctx.fb, 'json_util') else __import__('file_builder.json_util', fromlist=['JsonUtil']).JsonUtil
    b = bounds(task['tier'])
    acc = Acc()
    if task['kind'] == 'unary':
        i, n = task['slice']
        vals = value_set(b, b['unary_nodes'])
        for idx in range(i, len(vals), n):
            v = vals[idx]
            acc.counters['unary'] += 1
            check_unary(J, v, acc)
            acc.outcomes.add(hash(trepr(json_roundtrip(v))))
        if i == 0:
            acc.samples.append({'unary_values': [trepr(v) for v in vals[200:204]]})
    elif task['kind'] == 'pairs':
        i, n = task['slice']
        vals = pair_set(b)
        canon = [canonform(v) for v in vals]
        hashes = [J.to_hashable(v) if not _has_tuple(v) else None for v in vals]
        for a in range(i, len(vals), n):
            va, ca, ha = vals[a], canon[a], hashes[a]
            for bidx in range(len(vals)):
                vb = vals[bidx]
                acc.counters['pairs'] += 1
                want = (ca == canon[bidx])
                got = J.is_equal(va, vb)
                if got != want:
                    acc.bad('json.is_equal', {'got': got, 'want': want}, [va, vb])
                if ha is not None and hashes[bidx] is not None:
                    acc.counters['hash_pairs'] += 1
                    hq = (ha == hashes[bidx])
                    if hq != want:
                        acc.bad('json.hashable', {'got': hq, 'want': want}, [va, vb])
                    elif hq and hash(ha) != hash(hashes[bidx]):
                        acc.bad('json.hashable_hash', {}, [va, vb])
                if want:
                    acc.counters['equal_pairs'] += 1
        if i == 0:
            acc.samples.append({'pair_set_size': len(vals), 'pair_values': [trepr(v) for v in vals[300:304]]})
            acc.counters['pair_set_size'] = len(vals)
            acc.counters['equivalence_classes'] = len(set(canon))
    else:
        for v in subclass_values():
            acc.counters['subclass'] += 1
            check_unary(J, v, acc)
        for v in surrogate_values():
            acc.counters['surrogates'] += 1
            check_unary(J, v, acc)
        for v in nonjson_values():
            acc.counters['nonjson'] += 1
            try:
                r = J.sanitize(v)
                acc.bad('json.nonjson_accepted', {}, [repr(v)], got=trepr(r))
            except TypeError:
                pass
            except Exception as e:
                acc.bad('json.nonjson_wrong_exception', {'exc': type(e).__name__}, [repr(v)])
        # NaN is excluded by the property; keys that stringify specially
        for k, s in [(float('inf'), 'Infinity'), (float('-inf'), '-Infinity'), (True, 'true'), (False, 'false'),
                     (None, 'null'), (1.5, '1.5'), (2 ** 63, str(2 ** 63)), (-0.0, '-0.0'), (1e22, '1e+22')]:
            acc.counters['special_keys'] += 1
            want = json_roundtrip({k: 1})
            got = J.sanitize({k: 1})
            if trepr(got) != trepr(want):
                acc.bad('json.sanitize_roundtrip', {'key': repr(k)}, [{k: 1}], got=trepr(got), want=trepr(want))
    return {'counters': dict(acc.counters), 'violations': acc.violations, 'outcomes': acc.outcomes,
            'samples': acc.samples, 'states': set()}


def _has_tuple(v):
    if type(v) is tuple:
        return True
    if type(v) is list:
        return any(_has_tuple(x) for x in v)
    if type(v) is dict:
        return any(_has_tuple(x) for x in v.values())
    return False


def coverage(res, tier):
    c = res.counters
    b = bounds(tier)
    return {
        'states': c.get('unary', 0) + c.get('pair_set_size', 0),
        'transitions': c.get('unary', 0) + c.get('pairs', 0) + c.get('nonjson', 0) + c.get('subclass', 0) + c.get('surrogates', 0),
        'traces_validated_against_impl': c.get('unary', 0) + c.get('pairs', 0),
        'values_unary': c.get('unary', 0),
        'distinct_sanitised_values': len(res.outcomes),
        'pair_set_size': c.get('pair_set_size', 0),
        'ordered_pairs': c.get('pairs', 0),
        'hashable_pairs': c.get('hash_pairs', 0),
        'equal_pairs': c.get('equal_pairs', 0),
        'equivalence_classes': c.get('equivalence_classes', 0),
        'nonjson_values': c.get('nonjson', 0),
        'subclass_values': c.get('subclass', 0),
        'surrogate_strings': c.get('surrogates', 0),
        'exhaustive': True,
        'bounds': b,
        'rule': 'states = values enumerated (all values with <= unary_nodes constructor nodes over the 13 colliding '
                'atoms, lists/tuples/dicts with str/int/float/bool/None keys) + size of the pair set; transitions = '
                'helper evaluations. sanitize: type-exact equality with json.loads(json.dumps(v)), idempotence, no '
                'shared mutable object. is_equal / to_hashable: on ALL ordered pairs of the de-duplicated sanitised '
                'set (with tuple-ised variants) equal to the equality of an independently written canonical form '
                '(exact fractions, frozenset dicts, bool tagged apart) - this makes is_equal an equivalence on the '
                'set, so triples need no separate enumeration. Non-JSON values must raise TypeError.',
    }


def replay(v):
    uni.import_library()
    from file_builder.json_util import JsonUtil as J
    vals = pickle.loads(base64.b64decode(v['history']['pickle']))
    print('recorded: clause=%s facts=%s values=%s' % (v['clause'], v['facts'], v['history']['values']))
    for x in vals:
        try:
            print('  sanitize ->', trepr(J.sanitize(x)), ' json round trip ->', trepr(json_roundtrip(x)))
        except Exception as e:
            print('  sanitize raised', type(e).__name__)
    acc = Acc()
    if len(vals) == 2:
        a, b = vals
        want = canonform(a) == canonform(b)
        print('  is_equal =', J.is_equal(a, b), ' canonical equal =', want)
        if J.is_equal(a, b) != want or J.is_equal(b, a) != want:
            acc.bad('json.is_equal', {}, [a, b])
        try:
            hq = J.to_hashable(a) == J.to_hashable(b)
            print('  to_hashable equal =', hq)
            if hq != want:
                acc.bad('json.hashable', {}, [a, b])
        except Exception as e:
            print('  to_hashable raised', e)
            acc.bad('json.hashable_raised', {}, [a, b])
    else:
        for x in vals:
            check_unary(J, x, acc)
    print('  re-judged on the current tree: %d violations' % len(acc.violations))
    return 1 if acc.violations else 0
