"""C06 versions: all call graphs of <=3 nodes x for each function all ordered
pairs (v_old, v_new) of a version domain (and pairs of functions over a
sub-domain); history build(V_old), build(V_new), build(V_new).  A changed
version re-executes exactly the function's calls and their transitive callers
(and the result equals the from-scratch result with the new behaviour), calls
that do not depend on it stay cached; JSON-equal versions invalidate nothing."""
import itertools
import time

from .. import effect
from ..dsl import fname
from ..history import World, viol
from ..valmc import canonform
from .common import Acc, outcome_sig

PROP = 'C06'
ABSENT = '<absent>'
DOM = [ABSENT, None, 0, 1, 1.0, True, '1', [1], [1.0], {'a': 1, 'b': [2]}, {'b': [2], 'a': 1.0}, {}, {'a': 1},
       {'a': 1, 'level': 9}, [], [[1]], 'x', False, '', 0.0]
DOM4 = [ABSENT, 0, 1, {'a': 1}]


def graphs(fail_variants):
    """Call graphs: 1-3 nodes, 5 forest shapes for 3, kinds sb/bf, explicit
    function names A, B, C (two leaves of the same kind may share a name)."""
    paths = ['a', 'd/x', 'd/e/z']

    def node(kind, i, fn, ch, mode='ok'):
        n = {'k': kind, 'fn': fn, 'mode': mode, 'catch': True, 'ch': ch, 'usever': None}
        if kind == 'bf':
            n['p'] = paths[i]
        else:
            n['args'] = [i]
        return n
    out = []
    for n in (1, 2, 3):
        for kinds in itertools.product(('sb', 'bf'), repeat=n):
            if n == 1:
                shapes = [lambda N: [N(0, [])]]
            elif n == 2:
                shapes = [lambda N: [N(0, []), N(1, [])], lambda N: [N(0, [N(1, [])])]]
            else:
                shapes = [lambda N: [N(0, []), N(1, []), N(2, [])], lambda N: [N(0, [N(1, [])]), N(2, [])],
                          lambda N: [N(0, []), N(1, [N(2, [])])], lambda N: [N(0, [N(1, []), N(2, [])])],
                          lambda N: [N(0, [N(1, [N(2, [])])])]]
            for sh in shapes:
                modesets = [('ok',) * n]
                if fail_variants:
                    modesets += [tuple('rb' if j == i else 'ok' for j in range(n)) for i in range(n)]
                for modes in modesets:
                    names = 'ABC'
                    out.append(sh(lambda i, ch, kinds=kinds, modes=modes: node(kinds[i], i, names[i], ch, modes[i])))
                # shared callee name: the last two nodes are leaves of the same kind
                if n == 3 and kinds[1] == kinds[2]:
                    g = sh(lambda i, ch, kinds=kinds: node(kinds[i], i, 'AB' [min(i, 1)], ch))
                    ok = all(not x['ch'] for x in _flat(g) if x['fn'] == 'B')
                    if ok:
                        out.append(g)
    return out


def _flat(stmts):
    for s in stmts:
        yield s
        yield from _flat(s.get('ch', []))


def with_usever(g, flag):
    def cp(s):
        s = dict(s)
        s['usever'] = flag
        s['ch'] = [cp(c) for c in s['ch']]
        return s
    return [cp(s) for s in g]


def vmap(assign):
    return {f: v for f, v in assign.items() if not (isinstance(v, str) and v == ABSENT)}


def tasks(tier, seed):
    n = 64
    kinds = ['single'] if tier == 'quick' else ['single', 'single_fail']
    out = []
    for kind in ('single', 'double', 'fail'):
        for i in range(n):
            out.append({'tier': tier, 'kind': kind, 'slice': [i, n]})
    out.append({'tier': tier, 'kind': 'names'})
    return out


def cases(tier, kind):
    if kind == 'single':
        for g in graphs(False):
            fns = sorted({x['fn'] for x in _flat(g)})
            for f in fns:
                for vo in DOM:
                    for vn in DOM:
                        for uv in (False, True):
                            yield with_usever(g, uv), {f: vo}, {f: vn}
    elif kind == 'double':
        for g in graphs(False):
            fns = sorted({x['fn'] for x in _flat(g)})
            for f1, f2 in itertools.combinations(fns, 2):
                for a, b, c, d in itertools.product(DOM4, repeat=4):
                    yield with_usever(g, True), {f1: a, f2: b}, {f1: c, f2: d}
    else:
        for g in graphs(True):
            if all(x['mode'] == 'ok' for x in _flat(g)):
                continue
            fns = sorted({x['fn'] for x in _flat(g)})
            for f in fns:
                for vo in DOM4:
                    for vn in DOM4:
                        yield with_usever(g, True), {f: vo}, {f: vn}


def eqv(a, b):
    def c(v):
        return canonform(None if (isinstance(v, str) and v == ABSENT) else v)
    return c(a) == c(b)


def names_work(ctx, task):
    """Function names and version-map keys that are str subclasses (string enums, a subclass with a loud
    __str__): the name that counts is the plain string value, for the record and for the version map alike.
    Model-free: build(V_old), build(V_new) with the raw API; the function runs again iff the versions differ."""
    import enum
    import os

    class Step(str, enum.Enum):
        PARSE = 'parse'

    class Loud(str):
        def __str__(self):
            return 'LOUD'
    acc = Acc(PROP)
    sb = ctx.sb
    FB = ctx.fb.FileBuilder
    spell = {'plain': 'parse', 'enum': Step.PARSE, 'loud': Loud('parse')}
    vdom = [ABSENT, 1, 1.0, 2, {'a': 1}]
    for call, nk, kk, vo, vn in itertools.product(('sb', 'bf', 'sb_in_sb', 'bf_in_sb'), spell, spell, vdom, vdom):
        sb.reset()
        name, key = spell[nk], spell[kk]
        log = []

        def f(b, *a):
            log.append('f')
            return 1

        def fb(b, p):
            log.append('f')
            with open(p, 'w') as fh:
                fh.write('x')
            return 1

        def root(b):
            def inner(b2):
                return b2.subbuild(name, f) if call == 'sb_in_sb' else b2.build_file(sb.p('o'), name, fb)
            if call == 'sb':
                return b.subbuild(name, f)
            if call == 'bf':
                return b.build_file(sb.p('o'), name, fb)
            return b.subbuild('outer', inner)
        runs = []
        for v in (vo, vn, vn):
            del log[:]
            FB.build_versioned(sb.p('c'), 'n', {} if (isinstance(v, str) and v == ABSENT) else {key: v}, root)
            runs.append(len(log))
        acc.count('histories')
        acc.count('transitions', 3)
        want = [1, 0 if eqv(vo, vn) else 1, 0]
        acc.outcome('names', call, nk, kk, runs)
        if runs != want:
            v = viol('version.names', {'call': call, 'name': nk, 'key': kk, 'changed': not eqv(vo, vn)},
                     invocations=runs, expected=want, old=str(vo), new=str(vn))
            v['property'] = PROP
            v['history'] = {'names': [call, nk, kk, str(vo), str(vn)]}
            acc.violations.append(v)
    return acc.result(None)


def work(ctx, task):
    if task['kind'] == 'names':
        return names_work(ctx, task)
    i, n = task['slice']
    acc = Acc(PROP)
    world = World(ctx.sb, ctx.fb, 'K0')
    mine = ('effect.', 'eqref.')
    for ci, (g, vo, vn) in enumerate(cases(task['tier'], task['kind'])):
        if ci % n != i:
            continue
        prog = {'level': 0, 'root': g}
        V0, V1 = vmap(vo), vmap(vn)
        world.start()
        r0 = world.build(prog, versions=V0)
        trace0 = r0.ref_run.trace if r0.ref_run else None
        r1 = world.build(prog, versions=V1)
        r2 = world.build(prog, versions=V1)
        acc.count('histories')
        acc.count('must_not_run_calls', r1.mnr + r2.mnr)
        for r in (r0, r1, r2):
            for v in r.violations:
                if v['clause'].startswith(mine):
                    v = dict(v)
                    v['property'] = PROP
                    v['history'] = world.spec()
                    acc.violations.append(v)
        if world.diverged or trace0 is None:
            continue
        changed = [f for f in set(vo) | set(vn) if not eqv(vo.get(f, ABSENT), vn.get(f, ABSENT))]
        want = [effect.loose(x) for x in effect.predict_versions(trace0, V0, V1)]
        got = effect.real_idents(world.sb, r1.real_inv)
        if got != want:
            v = viol('version.rebuild_log', {'changed': bool(changed), 'missing': bool(set(want) - set(got)),
                                             'extra': bool(set(got) - set(want))},
                     invoked=[str(x)[:80] for x in got], expected=[str(x)[:80] for x in want], old=str(vo), new=str(vn))
            v['property'] = PROP
            v['history'] = world.spec()
            acc.violations.append(v)
        if not changed:
            acc.count('equal_version_pairs')
        else:
            acc.count('changed_version_pairs')
        acc.outcome(len(g), bool(changed), len(got), [x[0] for x in r2.real_inv])
        if not acc.samples and changed and got:
            acc.samples.append({'program': prog, 'old': str(vo), 'new': str(vn), 'invoked_after_change': r1.real_inv})
    return acc.result(world)


def coverage(res, tier):
    c = res.counters
    return {
        'states': len(res.states),
        'transitions': c.get('transitions', 0),
        'traces_validated_against_impl': c.get('transitions', 0),
        'histories': c.get('histories', 0),
        'call_graphs': len(graphs(False)),
        'call_graphs_with_a_failing_node': len(graphs(True)) - len(graphs(False)),
        'version_domain': [str(v) for v in DOM],
        'changed_version_pairs': c.get('changed_version_pairs', 0),
        'equal_version_pairs': c.get('equal_version_pairs', 0),
        'must_not_run_verdicts': c.get('must_not_run_calls', 0),
        'distinct_outcomes': len(res.outcomes),
        'exhaustive': True,
        'rule': 'all call graphs with 1-3 nodes (5 forest shapes, sb/bf, explicit function names incl. a shared '
                'callee name) x each function x all ordered pairs of the 20-value version domain, with a body that '
                'ignores / mentions its version; two functions at once over a 4-value sub-domain; graphs with one '
                'caught failing node over the sub-domain. History build(V_old), build(V_new), build(V_new). The '
                'invocation log after the change must equal the prediction (calls of changed functions and their '
                'transitive callers, reached through re-executing callers; nothing when the versions are JSON-equal '
                'by the independent canonical form), every build equals the reference model run with the new '
                'version map, and the effectiveness oracle forbids re-running independent calls. Names: function '
                'name and version-map key each spelled as plain str / str-Enum member / str subclass with a loud '
                '__str__ x 4 call shapes x 25 version pairs through the raw API: the function runs again iff '
                'the versions differ.',
    }
