"""C01 cache transparency: sweep over programs x initial trees x mutations,
history  T0, build P, m, build Q, build Q, clean, clean  with EQ-REF on every
step (DESIGN.md section 4, C01)."""
import time

from .. import gen
from ..history import World
from ..universe import mutation_alphabet
from .common import Acc, relevant_mutations, outcome_sig

PROP = 'C01'
NSLICES = 64

BFS = {'quick': 2, 'thorough': 5}          # depth of the explicit-state search over arbitrary action sequences (fbmc/bfs.py)
BFS_CLAUSES = ('eqref.', 'twin.')


# every query on names no file can have (embedded NUL): exists/is_* say False, open() raises ValueError
NUL_NAMES = dict(family='observer', size=1, level=0, cfg='K0', t0=['empty', 'dir_d_j'], mut='none', twin=True,
                 kw=dict(paths=['n\0', 'd/n\0m']))


def spaces(tier):
    """(size, level, cfg, t0 names, gen kwargs, mutation mode)"""
    small = dict(paths=['a', 'd', 'd/x', 'd/y', 'd/e/z'], bf_modes=['ok', 'rb', 'ra'], sb_modes=['ok', 'rb'])
    if tier == 'quick':
        return [
            dict(family='observer', size=1, level=0, cfg='K0', t0=['empty', 'full', 'dir_d_j', 'file_d_e'], mut='all', twin=True),
            dict(family='chain3', size=3, level=0, cfg='K0', t0=['empty'], mut='outputs', twin=True),
            dict(family='chain3', size=3, level=1, cfg='K0', t0=['empty'], mut='none'),
            dict(family='if', size=2, level=0, cfg='K0', t0=['empty', 'file_i', 'dir_d_j'], mut='all', twin=True),
            dict(family='pairs', size=1, level=1, cfg='K0', t0=['empty'], mut='none'),
            # the cache file in its own directory; outputs inside that directory and AT that directory
            dict(size=2, level=1, cfg='K1', t0=['empty'], mut='none', twin=True,
                 kw=dict(paths=['a', 'k', 'k/x'], bf_modes=['ok', 'rb', 'ra'], sb_modes=['ok'])),
            NUL_NAMES,
            dict(size=1, level=0, cfg='K0', t0=['empty', 'full', 'dir_d_j', 'file_d'], mut='all', twin=True),
            dict(size=1, level=1, cfg='K0', t0=['empty', 'full'], mut='all'),
            dict(size=1, level=2, cfg='K1', t0=['empty', 'dir_d_e'], mut='rel', twin=True),
            dict(size=2, level=0, cfg='K0', t0=['empty', 'dir_d_j'], mut='rel',
                 kw=dict(paths=['a', 'd', 'd/x', 'd/y', 'd/e/z'], bf_modes=['ok', 'rb', 'ra'], sb_modes=['ok', 'rb'])),
            dict(size=2, level=1, cfg='K0', t0=['empty'], mut='rel',
                 kw=dict(paths=['a', 'd', 'd/x', 'd/y', 'd/e/z'], bf_modes=['ok', 'rb', 'ra'], sb_modes=['ok', 'rb'])),
        ]
    return [NUL_NAMES] + [
        dict(family='observer', size=1, level=l, cfg=c, t0=list(gen.T0S), mut='all', twin=True)
        for l in (0, 1) for c in ('K0', 'K1')
    ] + [
        dict(family='if', size=2, level=l, cfg='K0', t0=list(gen.T0S), mut='all', twin=True) for l in (0, 1)
    ] + [
        dict(family='pairs', size=1, level=l, cfg='K0', t0=list(gen.T0S), mut='none') for l in (0, 1)
    ] + [
        dict(size=1, level=l, cfg=c, t0=list(gen.T0S), mut='all', twin=True)
        for l in (0, 1, 2, 3) for c in ('K0', 'K1')
    ] + [
        dict(size=2, level=l, cfg='K0', t0=['empty', 'dir_d_j', 'full', 'file_d'], mut='rel')
        for l in (0, 1, 2, 3)
    ] + [
        dict(size=3, level=l, cfg='K0', t0=['empty'], mut='rel',
             kw=dict(paths=['a', 'd', 'd/x', 'd/y', 'd/e/z'], bf_modes=['ok', 'rb', 'ra'], sb_modes=['ok', 'rb']))
        for l in (0, 1)
    ]


def tasks(tier, seed):
    out = []
    for si, sp in enumerate(spaces(tier)):
        n = NSLICES if (sp['size'] >= 2 or sp.get('family') == 'pairs') else 16
        if sp['size'] >= 3:
            n = 512
        for i in range(n):
            out.append({'tier': tier, 'space': si, 'slice': [i, n]})
    return out


def pair_programs(level):
    """Build P, then build a different program Q: file <-> directory swaps, other function for the
    same path, other arguments, other comparison mode, other function version of the same name."""
    A = list(gen.nodes(idx=1))
    extra = []
    for p in ('a', 'd/x'):
        base = {'k': 'bf', 'p': p, 'mode': 'ok', 'catch': True, 'ch': []}
        extra += [dict(base, fn='F'), dict(base, fn='G'), dict(base, fn='F', args=[1]), dict(base, fn='F', args=[1.0]),
                  dict(base, fn='F', args=[True]), dict(base, fn='F', cmp='HASH'), dict(base, fn='F', kwargs={'k': 1})]
    sbase = {'k': 'sb', 'mode': 'ok', 'catch': True, 'ch': []}
    extra += [dict(sbase, fn='S', args=[1]), dict(sbase, fn='S', args=[True]), dict(sbase, fn='T', args=[1]),
              dict(sbase, fn='S', args=[], kwargs={'a': 1}), dict(sbase, fn='S', args=[[1]]), dict(sbase, fn='S', args=[[1.0]])]
    for a in A:
        for b in A:
            if a is not b:
                yield {'level': level, 'root': [dict(a)]}, {'level': level, 'root': [dict(b)]}
    for a in extra:
        for b in extra:
            if a is not b:
                yield {'level': level, 'root': [dict(a)]}, {'level': level, 'root': [dict(b)]}


def work_pairs(ctx, sp, i, n, acc, world):
    capped = False
    for pi, (P, Q) in enumerate(pair_programs(sp['level'])):
        if pi % n != i:
            continue
        if ctx.deadline and time.time() > ctx.deadline:
            capped = True
            break
        acc.count('programs')
        for t0 in sp['t0']:
            world.start()
            for m in gen.T0S[t0]:
                world.mutate(m)
            rs = []
            for prog in (P, Q, Q, P):
                r = world.build(prog)
                rs.append(r)
                if acc.take(world, r) or world.diverged:
                    break
            acc.count('histories')
            acc.outcome([outcome_sig(r) for r in rs])
    return acc.result(world, capped)


def work(ctx, task):
    sp = spaces(task['tier'])[task['space']]
    i, n = task['slice']
    acc = Acc(PROP)
    world = World(ctx.sb, ctx.fb, sp['cfg'])
    full = mutation_alphabet()
    capped = False
    if sp.get('family') == 'pairs':
        return work_pairs(ctx, sp, i, n, acc, world)
    for pi, prog in enumerate(gen.family(sp)):
        if pi % n != i:
            continue
        if ctx.deadline and time.time() > ctx.deadline:
            capped = True
            break
        acc.count('programs')
        if sp['mut'] == 'all':
            muts = [None] + full
        elif sp['mut'] == 'none':
            muts = [None]
        elif sp['mut'] == 'outputs':
            muts = [None] + [[op, p] + (['A'] if op == 'w' else []) for p in sorted(set(gen.bf_paths(prog['root'])))
                             for op in ('del', 'w', 'f2d')]
        else:
            muts = [None] + relevant_mutations(prog, full)
        for t0 in sp['t0']:
            world.start()
            world.twin_on = bool(sp.get('twin'))
            for m in gen.T0S[t0]:
                world.mutate(m)
            r1 = world.build(prog)
            bad = acc.take(world, r1)
            if bad or world.diverged:
                acc.count('histories')
                continue
            h = world.save()
            for m in muts:
                world.restore(h)
                if m is not None and not world.mutate(m):
                    acc.count('mutation_not_applicable')
                    continue
                # a content change that keeps size and mtime is documented to go unnoticed by METADATA
                # comparisons; there the from-scratch twin legitimately differs (C13 owns that clause)
                world.twin_on = bool(sp.get('twin')) and not (m is not None and m[0] == 'flip')
                acc.count('histories')
                rs = []
                for step in ('build', 'build', 'clean', 'clean'):
                    r = world.build(prog) if step == 'build' else world.clean()
                    rs.append(r)
                    if acc.take(world, r) or world.diverged:
                        break
                acc.outcome([outcome_sig(r) for r in [r1] + rs if r.op == 'build'])
                if len(acc.samples) < 1 and m is not None:
                    acc.samples.append({'history': world.spec(),
                                        'results': [r.real[0] for r in [r1] + rs]})
            world.drop(h)
    acc.count('builds_compared_with_the_from_scratch_twin', getattr(world, 'twin_runs', 0))
    return acc.result(world, capped)


def coverage(res, tier):
    return {
        'states': len(res.states),
        'transitions': res.counters.get('transitions', 0),
        'traces_validated_against_impl': res.counters.get('transitions', 0),
        'programs': res.counters.get('programs', 0),
        'histories': res.counters.get('histories', 0),
        'distinct_outcomes': len(res.outcomes),
        'exhaustive': not res.capped,
        'bounds': [dict(family=s.get('family', 'skel'), size=s['size'], level=s['level'], cfg=s['cfg'], t0=s['t0'],
                        mutations=s['mut'], restriction=s.get('kw', {})) for s in spaces(tier)],
        'rule': 'every program of the stated size/level x every listed initial tree x every (relevant) external '
                'mutation; history = T0, build P, m, build P, build P, clean, clean; each API call executed by '
                'the implementation and by the reference model and compared (result, value, tree)',
    }
