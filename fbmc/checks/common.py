"""Helpers shared by the sweep-style checks."""
import hashlib
import os
import json
import time

from .. import gen
from ..history import World
from ..universe import mutation_alphabet

# which property a failed oracle clause belongs to
CLAUSE_PROPS = {
    'eqref.result_class': ('C01',),
    'eqref.value': ('C01',),
    'eqref.answer': ('C01', 'C04'),
    'eqref.tree': ('C01',),
    'twin.': ('C01',),
    'rollback.': ('C02',),
    'tmpdir.': ('C02',),
    'foreign.': ('C03',),
    'clean.': ('C12',),
    'cache.': ('C16',),
    'cachecmp.': ('C13',),
    'effect.': ('C05',),
    'contract.': ('C10',),
}


def props_of(clause):
    for k, v in CLAUSE_PROPS.items():
        if clause == k or (k.endswith('.') and clause.startswith(k)):
            return v
    return ()


class Acc:
    """Per-task accumulator returned to the engine."""

    def __init__(self, prop):
        self.prop = prop
        self.counters = {}
        self.violations = []
        self.outcomes = set()
        self.samples = []
        self.states = set()

    def count(self, k, n=1):
        self.counters[k] = self.counters.get(k, 0) + n

    def take(self, world, res, also=()):
        """File the violations of one step that belong to this property."""
        if res is None:
            return False
        hit = False
        for v in res.violations:
            ps = props_of(v['clause'])
            if self.prop in ps or v['clause'] in also:
                v = dict(v)
                v['property'] = self.prop
                v['history'] = world.spec()
                self.violations.append(v)
                hit = True
            else:
                self.count('other_property_clause:' + v['clause'])
                if os.environ.get('FBMC_DEBUG_OTHER'):
                    with open(os.environ['FBMC_DEBUG_OTHER'], 'a') as f:
                        f.write(json.dumps({'clause': v['clause'], 'facts': v.get('facts'), 'detail': v.get('detail'),
                                            'history': world.spec()}, default=str) + '\n')
        if world.diverged and not hit:
            self.count('histories_stopped_by_a_divergence_of_another_property')
        return hit

    def outcome(self, *parts):
        self.outcomes.add(hashlib.sha1(json.dumps(parts, default=str, sort_keys=True).encode()).digest()[:8])

    def result(self, world=None, capped=False):
        if world is not None:
            self.states |= world.state_digests
            self.count('transitions', world.transitions)
        return {'counters': self.counters, 'violations': self.violations[:200],
                'outcomes': self.outcomes, 'samples': self.samples[:2],
                'states': self.states, 'capped': capped}


def relevant_mutations(prog, full=None):
    ps = gen.prog_paths(prog)
    full = full or mutation_alphabet()
    out = []
    for m in full:
        p = m[1]
        if p in ps or p.rsplit('/', 1)[0] in ps:
            out.append(m)
    return out


def outcome_sig(res):
    if res is None:
        return None
    return [res.real[0], res.real[1] if res.real[0] == 'exc' else None,
            sorted((r, v[0]) for r, v in res.after.items()), res.real_inv]
