"""C14 internal OS errors: a single injected OSError at the k-th mutating
file-system call the library makes before the commit, for every k of every
build transition of the sweep, caught by the program or not; plus cache-write
faults (open / write after n bytes / close)."""
import errno
import time

from .. import gen
from ..history import World, viol
from ..universe import mutation_alphabet
from .common import Acc, relevant_mutations, outcome_sig

PROP = 'C14'
LEVEL = 'fault_enumeration'
MINE = ('rollback.', 'foreign.', 'eqref.', 'contract.', 'fault.')


def spaces(tier):
    small = dict(paths=['a', 'd', 'd/x', 'd/y', 'd/e/z'], bf_modes=['ok', 'rb', 'ra'], sb_modes=['ok', 'rb'])
    if tier == 'quick':
        return [
            dict(size=1, level=0, cfg='K0', t0=['empty', 'full', 'dir_d_j'], mut='outputs'),
            dict(size=1, level=1, cfg='K1', t0=['empty', 'file_d'], mut='outputs'),
            dict(size=2, level=0, cfg='K0', t0=['empty'], mut='outputs', kw=small),
            dict(size=2, level=1, cfg='K0', t0=['file_d'], mut='none', kw=small),
            dict(family='pairs', size=1, level=0, cfg='K0', t0=['empty'], mut='none'),
            dict(family='chain3', size=3, level=0, cfg='K0', t0=['empty'], mut='none'),
        ]
    return [
        dict(size=1, level=l, cfg=c, t0=list(gen.T0S), mut='rel') for l in (0, 1, 2) for c in ('K0', 'K1')
    ] + [
        dict(size=2, level=l, cfg='K0', t0=['empty', 'dir_d_j', 'full', 'file_d'], mut='outputs') for l in (0, 1)
    ] + [
        dict(family='chain3', size=3, level=0, cfg='K0', t0=['empty', 'file_d'], mut='outputs'),
        dict(family='pairs', size=1, level=0, cfg='K0', t0=['empty', 'full', 'dir_d_j'], mut='none'),
    ]


def tasks(tier, seed):
    out = []
    for si, sp in enumerate(spaces(tier)):
        n = 16 if (sp['size'] == 1 and sp.get('family') != 'pairs') else 64
        for i in range(n):
            out.append({'tier': tier, 'space': si, 'slice': [i, n]})
    return out


def take(acc, world, r):
    hit = False
    for v in r.violations:
        if v['clause'].startswith(MINE):
            v = dict(v)
            v['property'] = PROP
            v['history'] = world.spec()
            acc.violations.append(v)
            hit = True
    return hit


def fault_sweep(world, acc, prog, label):
    """From the current state: count the mutating calls of `build prog`, then
    for every k and errno run it with exactly that call failing."""
    h = world.save()
    r0 = world.build(prog, fault={'k': None})
    take(acc, world, r0)
    K = r0.fault['count']
    log = r0.fault['log']
    for k in range(1, K + 1):
        variants = [{'k': k, 'errno': errno.EIO}, {'k': k, 'errno': errno.EACCES}]
        if log[k - 1] == 'open':
            variants += [{'k': k, 'errno': errno.EIO, 'file': ['write', 0]},
                         {'k': k, 'errno': errno.EIO, 'file': ['write', 12]},
                         {'k': k, 'errno': errno.EIO, 'file': ['close']}]
        for f in variants:
            world.restore(h)
            r = world.build(prog, fault=f)
            acc.count('fault_runs')
            fired = r.fault['fired']
            if not fired:
                acc.count('fault_not_reached')
                continue
            acc.count('fault_at_' + fired[0])
            if r.real[0] == 'exc':
                acc.count('uncaught->rollback')
            else:
                acc.count('continued:' + str(r.fault.get('modelled_as', '?')).split(' ')[0])
            take(acc, world, r)
            acc.outcome(label, k, f.get('errno'), str(f.get('file')), r.real[0], r.real[1] if r.real[0] == 'exc' else None,
                        sorted((p, v[0]) for p, v in r.after.items()))
            if not world.diverged and r.real[0] == 'ok':
                # the state left behind must be a sane committed state: clean leaves the model's tree
                c = world.clean()
                for v in c.violations:
                    if v['clause'].startswith(('clean.', 'foreign.')):
                        v = dict(v)
                        v['property'] = PROP
                        v['clause'] = 'fault.' + v['clause']
                        v['history'] = world.spec()
                        acc.violations.append(v)
    world.restore(h)
    world.drop(h)


def work(ctx, task):
    sp = spaces(task['tier'])[task['space']]
    i, n = task['slice']
    acc = Acc(PROP)
    world = World(ctx.sb, ctx.fb, sp['cfg'])
    full = mutation_alphabet()
    capped = False
    if sp.get('family') == 'pairs':
        # file <-> directory swaps between two builds (reaches _make_room and its rmdir)
        from .c02 import pair_programs
        for pi, (P, Q) in enumerate(pair_programs(sp['level'])):
            if pi % n != i:
                continue
            if ctx.deadline and time.time() > ctx.deadline:
                capped = True
                break
            acc.count('programs')
            for t0 in sp['t0']:
                world.start()
                for m in gen.T0S[t0]:
                    world.mutate(m)
                world.build(P)
                if world.diverged:
                    continue
                acc.count('histories')
                fault_sweep(world, acc, Q, 'pair')
        return acc.result(world, capped)
    for pi, prog in enumerate(gen.family(sp)):
        if pi % n != i:
            continue
        if ctx.deadline and time.time() > ctx.deadline:
            capped = True
            break
        acc.count('programs')
        if sp['mut'] == 'none':
            muts = [None]
        elif sp['mut'] == 'outputs':
            muts = [None] + [[op, p] + (['A'] if op == 'w' else []) for p in sorted(set(gen.bf_paths(prog['root'])))
                             for op in ('del', 'w', 'f2d')]
        else:
            muts = [None] + relevant_mutations(prog, full)
        for t0 in sp['t0']:
            world.start()
            for m in gen.T0S[t0]:
                world.mutate(m)
            acc.count('histories')
            fault_sweep(world, acc, prog, 'first')
            world.build(prog)
            if world.diverged:
                continue
            h = world.save()
            for m in muts:
                world.restore(h)
                if m is not None and not world.mutate(m):
                    continue
                acc.count('histories')
                fault_sweep(world, acc, prog, 'rebuild')
                if not acc.samples and m is not None:
                    acc.samples.append({'history_prefix': world.spec(),
                                        'then': 'build P with OSError injected at the k-th mutating library call, every k'})
            world.drop(h)
    return acc.result(world, capped)


def coverage(res, tier):
    c = res.counters
    return {
        'evaluations': c.get('fault_runs', 0),
        'distinct_nontrivial': len(res.outcomes),
        'states': len(res.states),
        'transitions': c.get('transitions', 0),
        'programs': c.get('programs', 0),
        'histories': c.get('histories', 0),
        'fault_sites': {k[9:]: v for k, v in c.items() if k.startswith('fault_at_')},
        'uncaught_rolled_back': c.get('uncaught->rollback', 0),
        'continued': {k[10:]: v for k, v in c.items() if k.startswith('continued:')},
        'exhaustive': not res.capped,
        'bounds': [dict(family=s.get('family', 'skel'), size=s['size'], level=s['level'], cfg=s['cfg'], t0=s['t0'],
                        mutations=s['mut'], restriction=s.get('kw', {})) for s in spaces(tier)],
        'rule': 'evaluations = builds run with exactly one injected OSError (EIO, EACCES; for the cache file also '
                'write-after-n-bytes and close) at the k-th mutating library call (mkdir, rename, rmdir, replace, '
                'open-for-write) before the commit, every k of every build transition; distinct_nontrivial = '
                'distinct (position, errno, outcome, resulting tree) tuples in which the fault actually fired. '
                'Uncaught: before/after rollback monitors; caught: result/tree equal the reference model with the '
                'API call in progress failing in setup without effect (or the fault had no observable effect at '
                'all), then clean leaves the model tree.',
    }
