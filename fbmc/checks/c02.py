"""C02 rollback: for every build transition of the sweep and every program
point k of its dynamic execution, the same build with Crash@k; the exception
that leaves build is the injected object, files-after = files-before (bytes and
mtime, cache file included), no new file/dir remains (recorded created
directories may reappear empty), the temp dir is gone, and the next build from
the post-rollback state behaves like the next build from the saved pre-state
(bisimulation to depth 1)."""
import time

from .. import gen
from .. import universe as uni
from ..history import World, viol
from ..universe import mutation_alphabet
from .common import Acc, relevant_mutations, outcome_sig

PROP = 'C02'

BFS = {'thorough': 4}          # depth of the explicit-state search over arbitrary action sequences (fbmc/bfs.py)
BFS_CLAUSES = ('rollback.',)


def spaces(tier):
    small = dict(paths=['a', 'd', 'd/x', 'd/y', 'd/e/z'], bf_modes=['ok', 'rb', 'ra'], sb_modes=['ok', 'rb'])
    if tier == 'quick':
        return [
            dict(size=1, level=0, cfg='K0', t0=['empty', 'full', 'dir_d_j'], mut='all'),
            dict(size=1, level=0, cfg='K1', t0=['empty'], mut='rel'),
            dict(family='pairs', size=1, level=0, cfg='K0', t0=['empty', 'full'], mut='none'),
            dict(family='pairs', size=1, level=0, cfg='K0', t0=['empty'], mut='plant'),
            dict(size=2, level=0, cfg='K0', t0=['empty'], mut='outputs', kw=small),
            dict(family='bulk', size=1, level=0, cfg='K0', t0=['empty'], mut='none', ns=[1, 127, 128, 129, 130, 257]),
        ]
    return [
        dict(size=1, level=l, cfg=c, t0=list(gen.T0S), mut='all') for l in (0, 1) for c in ('K0', 'K1')
    ] + [
        dict(family='pairs', size=1, level=0, cfg='K0', t0=list(gen.T0S), mut='none'),
        dict(size=2, level=0, cfg='K0', t0=['empty', 'dir_d_j', 'full'], mut='rel'),
        dict(family='chain3', size=3, level=0, cfg='K0', t0=['empty'], mut='outputs'),
        dict(family='bulk', size=1, level=0, cfg='K0', t0=['empty'], mut='none',
             ns=[1, 2, 127, 128, 129, 130, 255, 256, 257, 384, 128 * 128 + 2]),
    ]


def tasks(tier, seed):
    out = []
    for si, sp in enumerate(spaces(tier)):
        if sp.get('family') == 'bulk':
            out += [{'tier': tier, 'space': si, 'slice': [i, len(sp['ns'])]} for i in range(len(sp['ns']))]
            continue
        n = 16 if (sp['size'] == 1 and sp.get('family') != 'pairs') else 64
        for i in range(n):
            out.append({'tier': tier, 'space': si, 'slice': [i, n]})
    return out


def same_files(a, b):
    """snapshots equal up to inode numbers"""
    if a.keys() != b.keys():
        return False
    return all(a[r][:3] == b[r][:3] for r in a)


def crash_sweep(world, acc, prog, label):
    """From the current state: count the program points of `build prog`, then
    run it with Crash@k for every k, checking the C02 oracles."""
    h = world.save()
    r0 = world.build(prog)
    acc.take(world, r0)
    npts = r0.npoints
    base_sig = outcome_sig(r0)
    for k in range(1, npts + 1):
        world.restore(h)
        r = world.build(prog, crash_at=k)
        acc.count('crash_builds')
        bad = acc.take(world, r)
        if not r.crashed:
            # an earlier (uncaught) failure of the program itself: still rolled back
            acc.count('crash_point_not_reached')
        acc.outcome(label, k, r.real[1] if r.real[0] == 'exc' else 'ok',
                    sorted((p, v[0]) for p, v in r.after.items()))
        if bad:
            continue
        if same_files(r.before, r.after):
            acc.count('post_state_identical')
            continue
        # bisimulation depth 1: the next build from post-rollback vs pre-state
        acc.count('bisim_runs')
        rb = world.build(prog, check_ref=False)
        sig_b = outcome_sig(rb)
        if sig_b != base_sig:
            v = viol('rollback.next_build_differs', {},
                     after_rollback=str(sig_b)[:300], from_prestate=str(base_sig)[:300])
            v['property'] = PROP
            v['history'] = world.spec()
            acc.violations.append(v)
    # ... and while the cache file is being written (open / write / close failing)
    if r0.real[0] == 'ok':
        world.restore(h)
        rc = world.build(prog, fault={'k': None})
        log = rc.fault['log']
        for k in range(1, len(log) + 1):
            if log[k - 1] != 'open':
                continue
            for f in ({'k': k, 'errno': 5}, {'k': k, 'errno': 28, 'file': ['write', 0]},
                      {'k': k, 'errno': 28, 'file': ['write', 15]}, {'k': k, 'errno': 5, 'file': ['close']}):
                world.restore(h)
                r = world.build(prog, fault=f)
                acc.count('cache_write_fault_builds')
                bad = acc.take(world, r)
                if r.real[0] != 'exc':
                    v = viol('rollback.cache_write_fault_swallowed', {'fault': str(f.get('file', 'open'))})
                    v['property'] = PROP
                    v['history'] = world.spec()
                    acc.violations.append(v)
                    continue
                if bad or same_files(r.before, r.after):
                    continue
                rb = world.build(prog, check_ref=False)
                if outcome_sig(rb) != base_sig:
                    v = viol('rollback.next_build_differs', {'after': 'cache write fault'})
                    v['property'] = PROP
                    v['history'] = world.spec()
                    acc.violations.append(v)
    world.restore(h)
    world.drop(h)
    return r0


def pair_programs(level):
    A = list(gen.nodes(idx=1))
    for a in A:
        for b in A:
            if a is not b:
                yield ({'level': level, 'root': [dict(a)]}, {'level': level, 'root': [dict(b)]})


def work(ctx, task):
    sp = spaces(task['tier'])[task['space']]
    i, n = task['slice']
    acc = Acc(PROP)
    world = World(ctx.sb, ctx.fb, sp['cfg'])
    full = mutation_alphabet()
    capped = False
    if sp.get('family') == 'bulk':
        from ..history import bulk2
        N = sp['ns'][i]
        for kind in ('foreign', 'prev'):
            for tail in ('raise', 'ok'):
                world.start()
                r = bulk2(world, {'op': 'note', 'bulk2': N, 'kind': kind, 'tail': tail})
                acc.count('histories')
                acc.count('programs')
                acc.count('bulk_builds')
                if tail == 'raise':
                    acc.count('crash_builds')
                acc.take(world, r)
                acc.outcome('bulk', N, kind, tail, r.real[0], len(r.after))
        return acc.result(world, False)
    if sp.get('family') == 'pairs':
        for pi, (P, Q) in enumerate(pair_programs(sp['level'])):
            if pi % n != i:
                continue
            if ctx.deadline and time.time() > ctx.deadline:
                capped = True
                break
            acc.count('programs')
            for t0 in sp['t0']:
                world.start()
                for m in gen.T0S[t0]:
                    world.mutate(m)
                world.build(P)
                if world.diverged:
                    continue
                if sp['mut'] == 'plant':
                    from .c03 import plant_mutations
                    hp = world.save()
                    for m in plant_mutations(world, P):
                        world.restore(hp)
                        if m is not None and not world.mutate(m):
                            continue
                        acc.count('histories')
                        crash_sweep(world, acc, Q, 'pair+plant')
                    world.drop(hp)
                    continue
                acc.count('histories')
                crash_sweep(world, acc, Q, 'pair')
        return acc.result(world, capped)
    for pi, prog in enumerate(gen.family(sp)):
        if pi % n != i:
            continue
        if ctx.deadline and time.time() > ctx.deadline:
            capped = True
            break
        acc.count('programs')
        if sp['mut'] == 'all':
            muts = [None] + full
        elif sp['mut'] == 'none':
            muts = [None]
        elif sp['mut'] == 'outputs':
            muts = [None] + [[op, p] + (['A'] if op == 'w' else []) for p in sorted(set(gen.bf_paths(prog['root'])))
                             for op in ('del', 'w', 'f2d')]
        else:
            muts = [None] + relevant_mutations(prog, full)
        for t0 in sp['t0']:
            world.start()
            for m in gen.T0S[t0]:
                world.mutate(m)
            # crash points of the very first build (no cache)
            acc.count('histories')
            r1 = crash_sweep(world, acc, prog, 'first')
            r1 = world.build(prog)
            if world.diverged:
                continue
            h = world.save()
            for m in muts:
                world.restore(h)
                if m is not None and not world.mutate(m):
                    continue
                acc.count('histories')
                crash_sweep(world, acc, prog, 'rebuild')
                if not acc.samples and m is not None:
                    acc.samples.append({'history_prefix': world.spec(), 'then': 'build P with Crash@k for every k'})
            world.drop(h)
    return acc.result(world, capped)


def coverage(res, tier):
    return {
        'states': len(res.states),
        'transitions': res.counters.get('transitions', 0),
        'traces_validated_against_impl': res.counters.get('transitions', 0),
        'programs': res.counters.get('programs', 0),
        'histories': res.counters.get('histories', 0),
        'crash_builds': res.counters.get('crash_builds', 0),
        'cache_write_fault_builds': res.counters.get('cache_write_fault_builds', 0),
        'bisimulation_runs': res.counters.get('bisim_runs', 0),
        'distinct_outcomes': len(res.outcomes),
        'exhaustive': not res.capped,
        'bounds': [dict(family=s.get('family', 'skel'), size=s['size'], level=s['level'], cfg=s['cfg'], t0=s['t0'],
                        mutations=s['mut'], restriction=s.get('kw', {})) for s in spaces(tier)],
        'rule': 'for every (program, initial tree, mutation): crash at every program point of the first build and of '
                'the rebuild after the mutation (pairs family: crashing build of Q on the state left by P), and the '
                'cache write of every successful build failing at open / first write / later write / close. Oracles '
                'are before/after monitors on the real tree (no model involved) plus a depth-1 bisimulation of the '
                'next build against the saved pre-state. Bulk family: N files (foreign, or outputs of a committed '
                'build modified since; rotating contents) all overwritten by one build that then raises / commits, N '
                'around the 128 and 128*128 boundaries of the backup store layout',
    }
