"""C15 refused calls have no side effects: a corruption alphabet over a valid
cache file (every truncation length, every single-bit flip, valid gzip of wrong
payloads, every JSON node replaced by a value of another type), the cache
path being a directory, a wrong build name and every
wrong-typed argument position, on trees with existing outputs."""
import collections
import gzip
import json
import os
import shutil

from .. import universe as uni
from ..history import World

PROP = 'C15'
LEVEL = 'fault_enumeration'

PROG = {'level': 0, 'root': [
    {'k': 'bf', 'p': 'a', 'mode': 'ok', 'catch': False, 'ch': []},
    {'k': 'bf', 'p': 'd/x', 'mode': 'ok', 'catch': False, 'ch': [{'k': 'q', 'kind': 'read', 'p': 'i'}]},
    {'k': 'sb', 'mode': 'ok', 'catch': False, 'args': [1], 'ch': [
        {'k': 'bf', 'p': 'd/e/z', 'mode': 'ok', 'catch': False, 'ch': []},
        {'k': 'bf', 'p': 'd/y', 'mode': 'rb', 'catch': True, 'ch': []}]},
]}
PREPS = {
    'intact': [],
    'dir_removed': [['rmtree', 'd']],          # a created directory removed by hand, cache kept
    'output_deleted': [['del', 'a']],
    'foreign_in_dir': [['w', 'd/j', 'A']],
}


def tasks(tier, seed):
    out = []
    preps = ['intact', 'dir_removed'] if tier == 'quick' else list(PREPS)
    for cfg in ('K0', 'K1'):
        for prep in preps:
            for api in ('build', 'clean'):
                for part in range(8):
                    out.append({'tier': tier, 'cfg': cfg, 'prep': prep, 'api': api, 'kind': 'bytes', 'part': [part, 8]})
                out.append({'tier': tier, 'cfg': cfg, 'prep': prep, 'api': api, 'kind': 'payloads'})
                if prep == 'intact':
                    for part in range(4):
                        out.append({'tier': tier, 'cfg': cfg, 'prep': prep, 'api': api, 'kind': 'shape', 'part': [part, 4]})
            out.append({'tier': tier, 'cfg': cfg, 'prep': prep, 'kind': 'types'})
    return out


def header_len(b):
    n = 10
    flg = b[3]
    if flg & 4:
        n += 2 + int.from_bytes(b[10:12], 'little')
    if flg & 8:
        n = b.index(b'\0', n) + 1
    if flg & 16:
        n = b.index(b'\0', n) + 1
    if flg & 2:
        n += 2
    return n


def gz(payload):
    return gzip.compress(payload if isinstance(payload, bytes) else json.dumps(payload).encode())


def payload_variants(good):
    j = json.loads(gzip.decompress(good))
    out = [('not-gzip', b'this is not gzip'), ('empty', b''), ('gzip-non-json', gz(b'{not json')),
           ('gzip-empty', gz(b'')), ('json-list', gz([])), ('json-empty-object', gz({})), ('json-null', gz(None)),
           ('json-string', gz('x'))]
    w = dict(j, software='other_software')
    out.append(('wrong-software', gz(w)))
    w = dict(j)
    del w['software']
    out.append(('missing-software', gz(w)))
    w = dict(j, cacheFileVersion=2)
    out.append(('newer-version', gz(w)))
    w = dict(j, cacheFileVersion='1')
    out.append(('string-version', gz(w)))
    w = dict(j, buildName='other')
    out.append(('other-build-name', gz(w)))
    # header fields with every other value that a truthiness / == shortcut would confuse with the expected one
    # (the current format's cacheFileVersion is null): each is another format / software / build and must be refused
    for v in (0, False, 0.0, '', [], {}, 1, True, 1.0, [None], {'v': None}):
        out.append(('version=%s' % json.dumps(v), gz(dict(j, cacheFileVersion=v))))
    for v in ('', None, 0, False, [], {}, j['software'].upper(), j['software'] + ' ', [j['software']]):
        if v != j['software']:
            out.append(('software=%s' % json.dumps(v), gz(dict(j, software=v))))
    for v in ('', None, 0, False, [], {}, ['n'], 'N', 'n '):
        out.append(('stored-build-name=%s' % json.dumps(v), gz(dict(j, buildName=v))))
    return out


# one value of every JSON type; a node is replaced by each value of *another* type
REPLACEMENTS = [None, True, 5, 'zz', [], {}]


def jtype(v):
    if v is None:
        return 'null'
    if isinstance(v, bool):
        return 'bool'
    if isinstance(v, (int, float)):
        return 'number'
    return {str: 'string', list: 'array', dict: 'object'}[type(v)]


def json_nodes(j, path=()):
    yield path, j
    if isinstance(j, dict):
        for k in sorted(j):
            yield from json_nodes(j[k], path + (k,))
    elif isinstance(j, list):
        for i, x in enumerate(j):
            yield from json_nodes(x, path + (i,))


def replaced(j, path, v):
    if not path:
        return v
    if isinstance(j, dict):
        return {k: (replaced(x, path[1:], v) if k == path[0] else x) for k, x in j.items()}
    return [(replaced(x, path[1:], v) if i == path[0] else x) for i, x in enumerate(j)]


def shape_variants(good):
    """Every node of the decoded cache file replaced by a value of every other
    JSON type (valid gzip, valid JSON, right software / version / build name
    unless that very node is hit)."""
    j = json.loads(gzip.decompress(good))
    for path, node in json_nodes(j):
        if not path:
            continue
        for v in REPLACEMENTS:
            if jtype(v) != jtype(node):
                where = '/'.join('*' if isinstance(p, int) else p for p in path)
                yield 'shape:%s=%s' % ('/'.join(map(str, path)), json.dumps(v)), where, gz(replaced(j, path, v))


class Acc:
    def __init__(self):
        self.counters = collections.Counter()
        self.violations = []
        self.outcomes = set()
        self.samples = []

    def bad(self, clause, facts, **detail):
        if len(self.violations) < 60:
            self.violations.append({'property': PROP, 'engine': 'checks.c15', 'clause': clause, 'facts': facts,
                                    'detail': detail, 'history': detail})


def work(ctx, task):
    acc = Acc()
    sb = ctx.sb
    world = World(sb, ctx.fb, task['cfg'])
    world.start()
    world.mutate(['w', 'i', 'A'])
    r = world.build(PROG)
    assert r.real[0] == 'ok', r.real
    for m in PREPS[task['prep']]:
        world.mutate(m)
    h = sb.save()
    cache = world.cache
    with open(cache, 'rb') as f:
        good = f.read()
    FB = ctx.fb.FileBuilder
    inv = []

    def root(b):
        inv.append('root')
        return 'ran'

    def attempt(label, call, must_refuse, baseline=None):
        """Run one API call on the prepared tree; classify and check."""
        before = uni.snap(sb.R)
        tmp_before = sb.tmp_listing()
        del inv[:]
        try:
            rv = call()
            outcome = ('returned', repr(rv))
        except Exception as e:
            outcome = ('raised', type(e).__name__)
        after = uni.snap(sb.R)
        acc.counters['calls'] += 1
        if outcome[0] == 'raised' and not inv:
            acc.counters['refused'] += 1
            if after != before:
                diff = sorted(p for p in set(before) | set(after) if before.get(p) != after.get(p))
                acc.bad('refused.tree_changed', {'api': task.get('api', 'types'), 'exc': outcome[1]}, what=label, paths=diff[:5],
                        cfg=task['cfg'], prep=task['prep'])
            if sb.tmp_listing() != tmp_before:
                acc.bad('refused.tmpdir_left', {'api': task.get('api', 'types')}, what=label, left=sb.tmp_listing())
            acc.outcomes.add(('refused', task.get('api'), outcome[1], label.split(':')[0]))
        else:
            acc.counters['accepted'] += 1
            if must_refuse:
                acc.bad('refused.accepted', {'api': task.get('api', 'types'), 'class': label.split(':')[0]}, what=label,
                        outcome=outcome, cfg=task['cfg'], prep=task['prep'])
            elif baseline is not None:
                sig = (outcome, sorted((p, v[0], v[1] if (v[0] == 'f' and p != world.cache_rel) else None) for p, v in after.items()))
                if sig != baseline:
                    acc.bad('accepted.differs_from_intact', {'api': task.get('api')}, what=label, outcome=outcome)
            acc.outcomes.add(('accepted', task.get('api'), outcome[0], label.split(':')[0]))
        return outcome, after

    def api_call():
        if task['api'] == 'build':
            return FB.build(cache, 'n', root)
        return FB.clean(cache, 'n')

    if task['kind'] == 'shape':
        # JSON of the wrong shape.  The call may go through (the node is not looked at, or the value
        # is as good as any other); if it raises, it must raise before changing anything and before
        # any user function is called.  For build the root function replays PROG, so that the records
        # are looked up.
        from ..dsl import Interp
        from ..apis import RealApi
        part, nparts = task['part']
        calls = []

        def root_prog(b):
            inv.append('root')
            it = Interp(PROG, {}, None)
            calls.append(it)
            return it.root(RealApi(ctx.fb, sb, b, None, {'bf_paths': [], 'answers': 0, 'mask': world.mask_names}, root=True))
        nvar = 0
        for j, (label, where, data) in enumerate(shape_variants(good)):
            if j % nparts != part:
                continue
            nvar += 1
            sb.restore(h)
            st = os.stat(cache)
            with open(cache, 'wb') as f:
                f.write(data)
            os.utime(cache, ns=(st.st_atime_ns, st.st_mtime_ns))
            before = uni.snap(sb.R)
            tmp_before = sb.tmp_listing()
            del inv[:]
            try:
                if task['api'] == 'build':
                    FB.build(cache, 'n', root_prog)
                else:
                    FB.clean(cache, 'n')
                outcome = 'returned'
            except Exception as e:
                outcome = type(e).__name__
            acc.counters['calls'] += 1
            if outcome == 'returned':
                acc.counters['accepted'] += 1
                acc.outcomes.add(('shape-accepted', task['api'], where))
                continue
            after = uni.snap(sb.R)
            changed = sorted(p for p in set(before) | set(after) if before.get(p) != after.get(p))
            ran = bool(inv)
            acc.outcomes.add(('shape-raised', task['api'], outcome, ran, bool(changed)))
            if ran or changed or sb.tmp_listing() != tmp_before:
                acc.counters['raised_late'] += 1
                acc.bad('shape.raised_after_side_effects',
                        {'api': task['api'], 'user_function_called': ran, 'tree_changed': bool(changed),
                         'tmpdir_left': sb.tmp_listing() != tmp_before},
                        what=label, exc=outcome, paths=changed[:5], cfg=task['cfg'])
            else:
                acc.counters['refused'] += 1
        if part == 0:
            acc.samples.append({'shape_variants_in_this_part': nvar, 'replacement_values': [json.dumps(v) for v in REPLACEMENTS]})
    elif task['kind'] in ('bytes', 'payloads'):
        # baseline: the same call with the intact cache
        sb.restore(h)
        o, after = attempt('intact', api_call, False)
        baseline = (o, sorted((p, v[0], v[1] if (v[0] == 'f' and p != world.cache_rel) else None) for p, v in after.items()))
        acc.counters['calls'] -= 1
        acc.counters['accepted'] -= 1

        def with_bytes(label, data, must_refuse):
            sb.restore(h)
            st = os.stat(cache)
            with open(cache, 'wb') as f:
                f.write(data)
            os.utime(cache, ns=(st.st_atime_ns, st.st_mtime_ns))
            attempt(label, api_call, must_refuse, baseline)

        if task['kind'] == 'bytes':
            part, nparts = task['part']
            hl = header_len(good)
            jobs = [('truncate:%d' % n, good[:n], True) for n in range(len(good))]
            for off in range(len(good)):
                for bit in range(8):
                    data = good[:off] + bytes([good[off] ^ (1 << bit)]) + good[off + 1:]
                    # flips in the deflate stream may hit bits zlib ignores (block padding):
                    # refusal is mandatory only for the magic/method bytes and the CRC32/ISIZE trailer
                    must = off < 3 or off >= len(good) - 8
                    jobs.append(('flip:%d.%d' % (off, bit), data, must))
            for j, (label, data, must) in enumerate(jobs):
                if j % nparts == part:
                    with_bytes(label, data, must)
            if part == 0:
                acc.samples.append({'cache_bytes': len(good), 'gzip_header_len': hl,
                                    'corruptions': [j[0] for j in jobs[:3]] + [j[0] for j in jobs[-3:]]})
        else:
            for label, data in payload_variants(good):
                must = True
                if label == 'other-build-name' and task['api'] == 'clean':
                    must = True
                with_bytes('payload:' + label, data, must)
            # the cache path is a directory
            sb.restore(h)
            os.remove(cache)
            os.mkdir(cache)
            attempt('cache-is-directory', api_call, True)
            # other build name / unknown build name
            for wrong in ('other', '', 'N', 'n ', ' n', 'nn'):
                sb.restore(h)
                if task['api'] == 'build':
                    attempt('build-name:%r' % wrong, lambda: FB.build(cache, wrong, root), True)
                else:
                    attempt('build-name:%r' % wrong, lambda: FB.clean(cache, wrong), True)
    else:
        class O:
            pass
        bad_paths = [None, 3, 3.5, O(), ['c'], ('c',), {'c': 1}, True]
        bad_names = [None, 3, b'n', O(), ['n']]
        bad_funcs = [None, 3, 'f', O(), [root]]
        bad_versions = [None, [], 'v', 3, {'f': set()}, {'f': O()}, {'f': b'x'}, {('t',): 1}, [('f', 1)]]
        calls = []
        for p in bad_paths:
            calls.append(('type:build.cache=%r' % (p,), lambda p=p: FB.build(p, 'n', root)))
            calls.append(('type:clean.cache=%r' % (p,), lambda p=p: FB.clean(p, 'n')))
            calls.append(('type:build_versioned.cache=%r' % (p,), lambda p=p: FB.build_versioned(p, 'n', {}, root)))
        for n in bad_names:
            calls.append(('type:build.name=%r' % (n,), lambda n=n: FB.build(cache, n, root)))
            calls.append(('type:build_versioned.name=%r' % (n,), lambda n=n: FB.build_versioned(cache, n, {}, root)))
            if n is not None:
                calls.append(('type:clean.name=%r' % (n,), lambda n=n: FB.clean(cache, n)))
        for f in bad_funcs:
            calls.append(('type:build.func=%r' % (f,), lambda f=f: FB.build(cache, 'n', f)))
            calls.append(('type:build_versioned.func=%r' % (f,), lambda f=f: FB.build_versioned(cache, 'n', {}, f)))
        for v in bad_versions:
            calls.append(('type:build_versioned.versions=%r' % (v,), lambda v=v: FB.build_versioned(cache, 'n', v, root)))
        for label, c in calls:
            sb.restore(h)
            attempt(label, c, True)
        acc.samples.append({'wrong_typed_calls': [c[0] for c in calls[:6]], 'count': len(calls)})
    sb.drop(h)
    return {'counters': dict(acc.counters), 'violations': acc.violations, 'outcomes': acc.outcomes,
            'samples': acc.samples[:1], 'states': world.state_digests}


def coverage(res, tier):
    c = res.counters
    return {
        'evaluations': c.get('calls', 0),
        'distinct_nontrivial': len(res.outcomes),
        'refused': c.get('refused', 0),
        'accepted': c.get('accepted', 0),
        'wrong_shape_raised_late': c.get('raised_late', 0),
        'exhaustive': True,
        'rule': 'evaluations = API calls (build or clean) made on a tree with outputs, created directories, a foreign '
                'input and a valid cache file that was corrupted in one way: every truncation length 0..|B|-1, every '
                'single-bit flip, 13 valid-gzip/invalid payloads, cache path a directory, other build name, and 60+ '
                'wrong-typed argument combinations; for cache directly in the root and in its own directory, on the '
                'intact tree and with a created directory removed by hand. Refused (raised without entering the '
                'root function): tree identical incl. inode and mtime, temp dir unchanged. Truncations, flips in the '
                'magic/method bytes and in the CRC32/ISIZE trailer, wrong payloads and wrong types MUST be refused; '
                'any other flip may be accepted (unchecked header fields, deflate padding bits) and must then '
                'behave exactly like the intact cache. JSON of the wrong shape: every node of the decoded cache '
                'file replaced by one value of every other JSON type (null, true, 5, "zz", [], {}), build replaying '
                'the program that wrote the cache so that the records are looked up: the call may go through, but '
                'if it raises it must do so before the root function is entered and before anything changed '
                '(raised_late counts the variants that break this; they are the open finding F25). '
                'distinct_nontrivial = distinct (refused|accepted, api, exception class, corruption class).',
    }


def replay(v):
    print('recorded: clause=%s facts=%s detail=%s' % (v['clause'], v['facts'], v['detail']))
    return 1
