"""C17 finished builders are fenced off.  Every public builder method x
builder kind {root, subbuild, build_file} x owner {returns, raises} x
{strictly after the owner finished, straggler thread racing with the owner's
return}: all schedules up to the preemption bound, flag reads/writes being
schedule points.  Oracle per straggler call: it returns normally and is part of
the owner's record, or it raises RuntimeError and has no effect at all."""
import json
import os
import shutil

from .. import sched
from .. import universe as uni
from ..dsl import UserError

PROP = 'C17'


class Abort(BaseException):
    """A non-Exception BaseException (like KeyboardInterrupt) raised by an owner function."""

METHODS = ['exists', 'is_file', 'is_dir', 'get_size', 'read_text', 'read_binary', 'declare_read', 'list_dir', 'walk',
           'build_file', 'build_file_with_comparison', 'subbuild']
# queries of the owner's own output and its directory (build_file builders only): what they answer changes
# while a failed call is being rolled back
OWN_METHODS = ['is_dir:own', 'list_dir:own', 'exists:own/out', 'is_file:own/out']
KINDS = ['root', 'sb', 'bf']
BUILD = 'n'


def tasks(tier, seed):
    out = [{'tier': tier, 'kind': 'sequential'}]
    for K in KINDS:
        for mode in ('return', 'raise'):
            for M in METHODS + (OWN_METHODS if K == 'bf' else []):
                out.append({'tier': tier, 'kind': 'race', 'K': K, 'mode': mode, 'M': M})
    return out


class Run:
    def __init__(self, ctx):
        self.ctx = ctx
        self.sb = ctx.sb
        self.FB = ctx.fb.FileBuilder
        self.cache = self.sb.p('c')

    def prepare(self):
        sb = self.sb
        sb.reset()
        with open(sb.p('obs'), 'w') as f:
            f.write('o')
        os.mkdir(sb.p('obsd'))
        with open(sb.p('obsd/e'), 'w') as f:
            f.write('e')

    def call(self, b, M, log):
        """The straggler's call of method M on builder b."""
        sb = self.sb
        if ':' in M:
            meth, rel = M.split(':')
            r = getattr(b, meth)(sb.p(rel))
            return sorted(r) if isinstance(r, list) else r
        if M == 'is_dir':
            return b.is_dir(sb.p('obsd'))
        if M in ('exists', 'is_file', 'get_size', 'declare_read'):
            return getattr(b, M)(sb.p('obs'))
        if M in ('read_text', 'read_binary'):
            f = getattr(b, M)(sb.p('obs'))
            f.close()
            return 'opened'
        if M in ('list_dir', 'walk'):
            return getattr(b, M)(sb.p('obsd'))
        if M in ('build_file', 'build_file_with_comparison'):
            def late(b2, p):
                log.append('late_invoked')
                with open(p, 'w') as f:
                    f.write('late')
                return 1
            if M == 'build_file':
                return b.build_file(sb.p('late'), 'late', late)
            return b.build_file_with_comparison(sb.p('late'), self.ctx.fb.FileComparison.HASH, 'late', late)
        if M == 'subbuild':
            def lates(b2):
                log.append('late_invoked')
                return b2.exists(sb.p('obs'))
            return b.subbuild('lates', lates)
        raise ValueError(M)

    def mutate_observed(self, M):
        sb = self.sb
        if ':' in M:
            return False
        if M in ('build_file', 'build_file_with_comparison'):
            if os.path.exists(sb.p('late')):
                os.remove(sb.p('late'))
                return True
            return False
        if M in ('list_dir', 'walk'):
            with open(sb.p('obsd/new'), 'w') as f:
                f.write('n')
            return True
        if M == 'is_dir':
            shutil.rmtree(sb.p('obsd'))
            return True
        os.remove(sb.p('obs'))
        return True

    def tree(self):
        return sorted((r, v[0], v[1] if (v[0] == 'f' and r != 'c') else None) for r, v in uni.snap(self.sb.R).items())

    def owner_program(self, s, K, mode, M, box, log, with_straggler):
        """Returns the root function.  box collects what the straggler saw."""
        sb = self.sb

        def straggler(b):
            box['began_after_owner_done'] = box.get('owner_done', False)
            try:
                box['result'] = ['ok', json.dumps(self.call(b, M, log), default=str)[:60]]
                # a call that returns normally must return while the builder is still open (the
                # instrumented flags are read from __dict__, which is not a scheduling point)
                op = b._operation
                closed = (b.__dict__.get('_fbmc__is_finished_build') if op is None
                          else op.__dict__.get('_fbmc_is_finished'))
                box['closed_at_return'] = bool(closed)
            except RuntimeError as e:
                box['result'] = ['RuntimeError', str(e)[:50]]
            except Exception as e:
                box['result'] = [type(e).__name__, str(e)[:50]]

        def owner_body(b2):
            log.append('owner_invoked')
            if with_straggler:
                box['tid'] = s.spawn(straggler, b2)
            box['owner_done'] = True
            if mode == 'raise':
                raise UserError('owner raises')
            return 'owner value'

        def root(b):
            if s is not None:
                s.active = True
            if K == 'root':
                return owner_body(b)

            def outer(bo):
                log.append('outer_invoked')
                try:
                    if K == 'sb':
                        r = bo.subbuild('owner', owner_body)
                    else:
                        def owner_bf(b2, p):
                            with open(p, 'w') as f:
                                f.write('owned')
                            return owner_body(b2)
                        r = bo.build_file(sb.p('own/out'), 'owner', owner_bf)
                except UserError:
                    r = 'owner raised'
                if with_straggler and 'tid' in box:
                    s.join([box['tid']])
                return r
            r = b.subbuild('outer', outer)
            if s is not None:
                s.active = False
            return r
        return root

    def race(self, K, mode, M, prefix, line=False):
        self.prepare()
        before = self.tree()
        log = []
        box = {}
        out = {}

        def body(s):
            root = self.owner_program(s, K, mode, M, box, log, True)
            try:
                out['build'] = ['ok', self.FB.build(self.cache, BUILD, root)]
            except UserError:
                out['build'] = ['raised', 'UserError']
            except (sched.Deadlock, sched.LostControl, sched.Divergence) as e:
                out['build'] = ['sched', type(e).__name__]
            except Exception as e:
                out['build'] = ['raised', type(e).__name__ + ':' + str(e)[:60]]
            if 'tid' in box and K == 'root':
                try:
                    s.join([box['tid']])
                except Exception:
                    pass
            s.active = False
        s = sched.run_schedule(body, prefix, line, os.path.join(uni.REPO, 'file_builder'))
        out['straggler'] = box.get('result')
        out['closed_at_return'] = box.get('closed_at_return', False)
        out['late_invoked'] = 'late_invoked' in log
        out['failure'] = None if s.failure is None else type(s.failure).__name__ + ':' + str(s.failure)[:80]
        out['audit'] = sorted(set(sched.AUDIT))
        out['before'] = before
        out['after'] = self.tree()
        return s, out

    def attach_test(self, K, mode, M):
        """Sequential: is the straggler's operation part of the record that the
        next build replays?  Returns (invoked without mutation, invoked after
        mutating the observed path)."""
        sb = self.sb
        res = []
        saved = sb.save()
        for mutate in (False, True):
            sb.restore(saved)
            if mutate and not self.mutate_observed(M):
                res.append(None)
                continue
            log = []
            root = self.owner_program(None, K, mode, M, {}, log, False)
            try:
                self.FB.build(self.cache, BUILD, root)
            except Exception as e:
                log.append('EXC ' + type(e).__name__)
            res.append(sorted(set(log)))
        sb.drop(saved)
        return res


def judge(K, mode, M, o, attach):
    """Returns a list of (clause, facts) for one execution."""
    out = []
    if o['failure']:
        return [('fence.' + ('deadlock' if o['failure'].startswith('Deadlock') else 'harness'), {'K': K, 'M': M})]
    st = o['straggler']
    facts = {'builder': K, 'method': M, 'owner': mode}
    if o.get('audit'):
        out.append(('fence.appended_to_closed_record', dict(facts, what=o['audit'][0])))
    if o.get('closed_at_return') and M not in ('read_text', 'read_binary'):
        # (read_text / read_binary record their observation and only then open the file, which is a
        # scheduling point of its own: returning after the close is fine there, the attachment test decides)
        out.append(('fence.returned_normally_after_close', facts))
    if st is None:
        return [('fence.harness', {'K': K, 'M': M, 'why': 'straggler never ran'})]
    if st[0] == 'FileNotFoundError' and M == 'list_dir:own':
        st = ['ok', 'FileNotFoundError']      # the directory of the output legitimately does not exist (yet / any more)
    if st[0] not in ('ok', 'RuntimeError'):
        # queries on obs may legitimately raise OSError subclasses? obs exists: they may not
        out.append(('fence.wrong_exception', dict(facts, exc=st[0])))
        return out
    late_on_disk = any(r == 'late' for r, _, _ in o['after'])
    if st[0] == 'RuntimeError':
        if o['late_invoked']:
            out.append(('fence.effect_despite_error', dict(facts, effect='callee_invoked')))
        if late_on_disk:
            out.append(('fence.effect_despite_error', dict(facts, effect='output_left')))
    # the build as a whole
    if o['build'][0] == 'raised':
        if o['after'] != o['before']:
            out.append(('fence.effect_outlives_rollback', dict(facts, straggler=st[0])))
    if attach is not None and K != 'root' and o['build'][0] == 'ok':
        plain, mutated = attach
        if plain is None:
            return out
        reinvoked_plain = 'outer_invoked' in plain
        if reinvoked_plain:
            out.append(('fence.record_not_reusable', dict(facts, straggler=st[0])))
        if mutated is None:
            return out
        reinvoked_mut = 'outer_invoked' in mutated
        if reinvoked_plain:
            pass
        elif st[0] == 'ok' and not reinvoked_mut:
            out.append(('fence.completed_operation_not_recorded', facts))
        elif st[0] == 'RuntimeError' and reinvoked_mut:
            out.append(('fence.attached_to_closed_record', facts))
    return out


def work(ctx, task):
    sched.install(ctx.fb)
    R = Run(ctx)
    violations = []
    outcomes = set()
    counters = {'executions': 0}

    def add(clause, facts, history, detail):
        if len(violations) < 40:
            violations.append({'property': PROP, 'engine': 'checks.c17', 'clause': clause, 'facts': facts,
                               'detail': detail, 'history': history})
    if task['kind'] == 'sequential':
        # strictly after the owner finished, one thread
        sb = R.sb
        for K in KINDS:
            for mode in ('return', 'raise', 'raise_base'):
                for M in METHODS:
                    R.prepare()
                    keep = {}
                    log = []

                    def owner_body(b2):
                        keep['b'] = b2
                        if mode == 'raise':
                            raise UserError('x')
                        if mode == 'raise_base':
                            raise Abort('x')
                        return 1

                    def root(b):
                        if K == 'root':
                            return owner_body(b)
                        if mode == 'raise_base':
                            # a BaseException is not caught: it ends the whole build
                            if K == 'sb':
                                b.subbuild('owner', owner_body)
                            else:
                                def obf0(b2, p):
                                    return owner_body(b2)
                                b.build_file(sb.p('own/out'), 'owner', obf0)
                        try:
                            if K == 'sb':
                                b.subbuild('owner', owner_body)
                            else:
                                def obf(b2, p):
                                    with open(p, 'w') as f:
                                        f.write('x')
                                    return owner_body(b2)
                                b.build_file(sb.p('own/out'), 'owner', obf)
                        except (UserError, Abort):
                            pass
                        if K != 'root':
                            keep['inner'] = call_guarded(R, keep['b'], M, log)
                        return 0
                    try:
                        R.FB.build(R.cache, BUILD, root)
                    except (UserError, Abort):
                        pass
                    before = R.tree()
                    res = (keep.get('inner') if (K != 'root' and mode != 'raise_base')
                           else call_guarded(R, keep['b'], M, log))
                    counters['executions'] += 1
                    outcomes.add(('seq', K, mode, M, res))
                    if res != 'RuntimeError':
                        add('fence.no_error_after_finish', {'builder': K, 'method': M, 'owner': mode}, {'sequential': [K, mode, M]}, {'result': res})
                    if log or ((K == 'root' or mode == 'raise_base') and R.tree() != before):
                        add('fence.effect_despite_error', {'builder': K, 'method': M, 'owner': mode, 'effect': 'sequential'},
                            {'sequential': [K, mode, M]}, {})
        return {'counters': counters, 'violations': violations, 'outcomes': {str(x) for x in outcomes},
                'samples': [{'sequential_cases': counters['executions']}], 'states': set()}
    K, mode, M = task['K'], task['mode'], task['M']
    bound = {'quick': 2, 'thorough': 3}[task['tier']]
    s1, o1 = R.race(K, mode, M, [])
    s2, o2 = R.race(K, mode, M, [])
    if o1 != o2 or s1.choices != s2.choices:
        return {'harness_error': 'C17 %s/%s/%s: default schedule not reproducible' % (K, mode, M), 'task': task}
    completed = None
    capped = False
    passes = [(x, False) for x in range(0, bound + 1)]
    if task['tier'] == 'thorough':
        passes.append((1, True))          # granularity audit: every source line of the library is a point
    line_execs = 0
    for bnd, line in passes:
        ex = sched.Explorer(lambda p: R.race(K, mode, M, p, line), bnd, deadline=ctx.deadline)
        for s, o in ex:
            counters['executions'] += 1
            line_execs += 1 if line else 0
            attach = None
            if K != 'root' and o['build'][0] == 'ok' and not o['failure']:
                attach = R.attach_test(K, mode, M)
            sig = (o['straggler'][0] if o['straggler'] else None, o['build'][0], o['late_invoked'], str(attach))
            outcomes.add(sig)
            for clause, facts in judge(K, mode, M, o, attach):
                add(clause, facts, {'K': K, 'mode': mode, 'M': M, 'choices': list(s.choices), 'line': line},
                    {'straggler': o['straggler'], 'build': o['build'], 'attach': attach, 'preemptions': s.preemptions(),
                     'began_after_owner_done': None})
        if not ex.complete:
            capped = True
            break
        if not line:
            completed = bnd
    return {'counters': {'executions': counters['executions'], 'race_scenarios': 1, 'b%s' % completed: 1,
                         'line_audit_executions': line_execs},
            'violations': violations, 'outcomes': {'%s/%s/%s:%s' % (K, mode, M, x) for x in outcomes},
            'samples': [{'builder': K, 'owner': mode, 'method': M, 'bound_completed': completed,
                         'executions': counters['executions'], 'distinct_outcomes': sorted(map(str, outcomes))}],
            'states': set(), 'capped': capped}


def call_guarded(R, b, M, log):
    try:
        R.call(b, M, log)
        return 'returned'
    except RuntimeError:
        return 'RuntimeError'
    except Exception as e:
        return type(e).__name__


def coverage(res, tier):
    c = res.counters
    return {
        'states': c.get('executions', 0),
        'transitions': c.get('executions', 0),
        'traces_validated_against_impl': c.get('executions', 0),
        'race_scenarios': c.get('race_scenarios', 0),
        'line_granularity_audit_executions': c.get('line_audit_executions', 0),
        'scenarios_completed_at_bound': {k: v for k, v in c.items() if k.startswith('b') and k[1:].lstrip('-').isdigit()},
        'distinct_outcomes': len(res.outcomes),
        'exhaustive': not res.capped,
        'rule': 'states = executions: 99 sequential cases (method called strictly after the owner returned, raised an '
                'Exception or raised a BaseException) + every '
                'schedule with <= bound preemptions of 66 race scenarios (11 methods x builder kind root/subbuild/'
                'build_file x owner returns/raises; the straggler thread is started by the owner function and races '
                'with its return; flag reads/writes, lock acquires and file-system calls are schedule points). Per '
                'execution: RuntimeError => callee not invoked and no output; a rolled-back build leaves the '
                'pre-build tree; then sequentially the next build decides attachment: the enclosing record must be '
                'reusable as is, and must miss after the observed path is changed iff the straggler call returned '
                'normally.',
    }


def replay(v):
    class Ctx:
        pass
    ctx = Ctx()
    ctx.fb = uni.import_library()
    ctx.sb = uni.Sandbox('replay')
    ctx.deadline = None
    sched.install(ctx.fb)
    R = Run(ctx)
    h = v['history']
    if 'sequential' in h:
        print('sequential case', h['sequential'], v['clause'], v['facts'])
        return 1
    s, o = R.race(h['K'], h['mode'], h['M'], h['choices'], bool(h.get('line')))
    attach = R.attach_test(h['K'], h['mode'], h['M']) if (h['K'] != 'root' and o['build'][0] == 'ok') else None
    print('builder=%s owner=%s method=%s switches at %s' % (h['K'], h['mode'], h['M'],
          [(i, s.points[i][2]) for i, c in enumerate(s.choices) if c]))
    print('  straggler:', o['straggler'], ' build:', o['build'], ' late fn invoked:', o['late_invoked'])
    print('  attach test (invoked without / with mutation of the observed path):', attach)
    js = judge(h['K'], h['mode'], h['M'], o, attach)
    for c, f in js:
        print('  VIOLATED', c, f)
    ctx.sb.destroy()
    return 1 if js else 0
