"""C05 cache effectiveness: for every committed build of the sweep, (a) an
unchanged rebuild (twice), (b)/(c) a rebuild after each single mutation; no
invoked call may be MUST-NOT-RUN (reference-model traces identical, versions
equal, outputs intact), outputs of calls that were not re-executed keep inode
and mtime, and an unchanged rebuild re-executes exactly the predicted set."""
import time

from .. import gen
from ..history import World
from ..universe import mutation_alphabet
from .common import Acc, relevant_mutations, outcome_sig

PROP = 'C05'


def spaces(tier):
    small = dict(paths=['a', 'd', 'd/x', 'd/y', 'd/e/z'], bf_modes=['ok', 'rb', 'ra'], sb_modes=['ok', 'rb'])
    if tier == 'quick':
        return [
            dict(family='observer', size=1, level=0, cfg='K0', t0=['empty', 'full', 'dir_d_j'], mut='all'),
            dict(size=1, level=3, cfg='K0', t0=['empty', 'full'], mut='all'),
            dict(size=2, level=0, cfg='K0', t0=['empty', 'dir_d_j'], mut='rel', kw=small),
            dict(size=2, level=3, cfg='K0', t0=['file_i'], mut='rel', kw=small),
            dict(size=2, level=2, cfg='K0', t0=['empty'], mut='none', kw=small),
            dict(family='chain3', size=3, level=0, cfg='K0', t0=['empty'], mut='outputs'),
            dict(family='if', size=2, level=0, cfg='K0', t0=['empty', 'file_i'], mut='rel'),
            dict(family='preobs', size=3, level=0, cfg='K0', t0=['empty', 'dir_d_j'], mut='rel'),
            dict(family='args', size=1, level=0, cfg='K0', t0=['empty'], mut='outputs'),
        ]
    return [
        dict(family='observer', size=1, level=l, cfg=c, t0=list(gen.T0S), mut='all') for l in (0, 3) for c in ('K0', 'K1')
    ] + [
        dict(size=1, level=l, cfg='K0', t0=list(gen.T0S), mut='all') for l in (0, 2, 3)
    ] + [
        dict(size=2, level=l, cfg='K0', t0=['empty', 'dir_d_j', 'full', 'file_i'], mut='rel') for l in (0, 2, 3)
    ] + [
        dict(family='chain3', size=3, level=l, cfg='K0', t0=['empty', 'file_i'], mut='outputs') for l in (0, 3)
    ] + [
        dict(family='if', size=2, level=0, cfg='K0', t0=list(gen.T0S), mut='all'),
        dict(family='preobs', size=3, level=0, cfg='K0', t0=list(gen.T0S), mut='all'),
        dict(family='args', size=1, level=0, cfg='K0', t0=['empty', 'full'], mut='rel'),
        dict(family='args', size=1, level=3, cfg='K0', t0=['empty'], mut='outputs'),
        dict(family='args', size=2, level=0, cfg='K0', t0=['empty'], mut='outputs', kw=small),
    ]


def tasks(tier, seed):
    out = []
    for si, sp in enumerate(spaces(tier)):
        n = 64
        for i in range(n):
            out.append({'tier': tier, 'space': si, 'slice': [i, n]})
    return out


def work(ctx, task):
    sp = spaces(task['tier'])[task['space']]
    i, n = task['slice']
    acc = Acc(PROP)
    world = World(ctx.sb, ctx.fb, sp['cfg'])
    full = mutation_alphabet()
    capped = False
    for pi, prog in enumerate(gen.family(sp)):
        if pi % n != i:
            continue
        if ctx.deadline and time.time() > ctx.deadline:
            capped = True
            break
        acc.count('programs')
        if sp['mut'] == 'all':
            muts = [None] + full
        elif sp['mut'] == 'none':
            muts = [None]
        elif sp['mut'] == 'outputs':
            muts = [None] + [[op, p] + (['A'] if op == 'w' else []) for p in sorted(set(gen.bf_paths(prog['root'])))
                             for op in ('del', 'w', 'f2d', 'touch')]
        else:
            muts = [None] + relevant_mutations(prog, full)
        for t0 in sp['t0']:
            world.start()
            for m in gen.T0S[t0]:
                world.mutate(m)
            r1 = world.build(prog)
            if world.diverged:
                continue
            h = world.save()
            for m in muts:
                world.restore(h)
                if m is not None and not world.mutate(m):
                    continue
                acc.count('histories')
                rs = []
                for k in range(2):
                    r = world.build(prog)
                    rs.append(r)
                    acc.take(world, r)
                    acc.count('must_not_run_calls', r.mnr)
                    if r.unchanged:
                        acc.count('unchanged_rebuilds_exact')
                    if world.diverged:
                        break
                acc.outcome([(r.real_inv, r.mnr) for r in rs])
                if not acc.samples and m is not None and rs[0].mnr:
                    acc.samples.append({'history': world.spec(), 'invoked': [r.real_inv for r in rs],
                                        'must_not_run_calls': [r.mnr for r in rs]})
            world.drop(h)
    return acc.result(world, capped)


def coverage(res, tier):
    c = res.counters
    return {
        'states': len(res.states),
        'transitions': c.get('transitions', 0),
        'traces_validated_against_impl': c.get('transitions', 0),
        'programs': c.get('programs', 0),
        'histories': c.get('histories', 0),
        'must_not_run_verdicts': c.get('must_not_run_calls', 0),
        'unchanged_rebuilds_with_exact_log': c.get('unchanged_rebuilds_exact', 0),
        'distinct_outcomes': len(res.outcomes),
        'exhaustive': not res.capped,
        'bounds': [dict(family=s.get('family', 'skel'), size=s['size'], level=s['level'], cfg=s['cfg'], t0=s['t0'],
                        mutations=s['mut'], restriction=s.get('kw', {})) for s in spaces(tier)],
        'rule': 'history: T0, build P, m (none or one mutation of the alphabet), build P, build P. For each rebuild '
                'the reference model yields the trace tree (operations and answers, file identities for reads) of '
                'every call; a call is MUST-NOT-RUN when its previous record was ok without setup failure, versions '
                'equal, its outputs untouched and its trace identical to the previous one (silent when the trace '
                'holds an answer the model masks or reads a file built in this build). must_not_run_verdicts counts '
                'the calls for which the oracle actually forbade execution (non-vacuity). Unchanged rebuilds must '
                'invoke exactly the predicted set; outputs of calls not re-executed keep inode and mtime.',
    }
