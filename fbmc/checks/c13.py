"""C13 comparison modes: {input read, output integrity, output read back} x
{top-level, nested in a reused subtree} x {HASH, METADATA} x the (content
changed?, metadata changed?) mutations built with controlled utime, incl. same
size + same mtime + other bytes and a rebuilt output with a fixed mtime."""
import itertools

from ..dsl import fname
from ..history import World, viol
from .common import Acc, outcome_sig

PROP = 'C13'
# mutation -> (metadata changed, content changed)
MUTS = {None: (False, False), 'touch': (True, False), 'touch1': (True, False), 'flip': (False, True), 'flipend': (False, True), 'w': (True, True),
        'grow': (True, True), 'nul': (True, True)}


def detects(cmp, m):
    meta, content = MUTS[m]
    return meta if cmp == 'METADATA' else content


def mut(m, p):
    if m is None:
        return None
    if m == 'w':
        return ['w', p, 'B']
    return [m, p]


def sbn(ch, i=1):
    return {'k': 'sb', 'mode': 'ok', 'catch': False, 'args': [i], 'ch': ch}


def bfn(p, ch, cmp='METADATA', **kw):
    n = {'k': 'bf', 'p': p, 'mode': 'ok', 'catch': False, 'ch': ch}
    if cmp != 'METADATA':
        n['cmp'] = cmp
    n.update(kw)
    return n


def rd(p, cmp):
    return {'k': 'q', 'kind': 'readh' if cmp == 'HASH' else 'read', 'p': p, 'cmp': cmp}


def scenarios():
    out = []
    CMPS = ('METADATA', 'HASH')
    # R1 input read
    for cmp in CMPS:
        for hi, host in enumerate((lambda q: [sbn([q])], lambda q: [bfn('a', [q])], lambda q: [sbn([sbn([q], 2)])],
                                   lambda q: [bfn('a', [sbn([q])])], lambda q: [sbn([bfn('d/x', [q])])],
                                   # the read happens after a caught failure of a nested build_file / subbuild
                                   lambda q: [sbn([dict(bfn('d/y', []), mode='rb', catch=True), q])],
                                   lambda q: [bfn('a', [dict(sbn([], 3), mode='rb', catch=True), q])])):
            for m in MUTS:
                prog = {'level': 0, 'root': host(rd('i', cmp))}
                everything = [fname(n, 0) for n in _calls(prog['root'])]
                want = everything if detects(cmp, m) else []
                if hi == 6 and not want:
                    pass
                stale = cmp == 'METADATA' and MUTS[m] == (False, True)
                out.append(dict(role='input_read', nested=hi >= 2, cmp=cmp, m=m, prog=prog, mutate=mut(m, 'i'),
                                want=want, stale_ok=stale))
    # R7 input of 1023..3000 bytes (the hash loop reads 1024-byte units): change in the first / in the last byte
    for cmp in CMPS:
        for key in ('K1023', 'K1024', 'K1025', 'K1500', 'K2048', 'K3000'):
            for hi, host in enumerate((lambda q: [bfn('a', [q])], lambda q: [sbn([sbn([q], 2)])])):
                for m in MUTS:
                    prog = {'level': 0, 'root': host(rd('i', cmp))}
                    everything = [fname(n, 0) for n in _calls(prog['root'])]
                    out.append(dict(role='long_input_read', nested=hi >= 1, cmp=cmp, m=m, prog=prog, mutate=mut(m, 'i'),
                                    stamp=key, input=key, want=everything if detects(cmp, m) else [],
                                    stale_ok=cmp == 'METADATA' and MUTS[m] == (False, True)))
    # R2 output integrity
    for cmp in CMPS:
        for hi, host in enumerate((lambda: [bfn('a', [], cmp)], lambda: [sbn([bfn('a', [], cmp)])],
                                   lambda: [bfn('d/x', [bfn('a', [], cmp)])])):
            for m in list(MUTS) + ['del']:
                prog = {'level': 0, 'root': host()}
                everything = [fname(n, 0) for n in _calls(prog['root'])]
                det = True if m == 'del' else detects(cmp, m)
                out.append(dict(role='output_integrity', nested=hi >= 1, cmp=cmp, m=m, prog=prog,
                                mutate=['del', 'a'] if m == 'del' else mut(m, 'a'),
                                want=everything if det else [], stale_ok=(cmp == 'METADATA' and MUTS.get(m) == (False, True))))
    # R3 output read back in the same / a later build; the hash memo across a rebuild
    for cmp_in, cmp_out, cmp_rd, stamp, nested in itertools.product(CMPS, CMPS, CMPS, ('fresh', 'fixed'), (False, True)):
        for m in (None, 'touch', 'flip', 'w'):
            prod = bfn('a', [rd('i', cmp_in)], cmp_out, stamp=stamp)
            reader = sbn([rd('a', cmp_rd)], 7)
            if nested:
                reader = sbn([reader], 8)
            prog = {'level': 0, 'root': [prod, reader]}
            rebuilt = detects(cmp_in, m)
            content_a = rebuilt and MUTS[m][1]
            meta_a = rebuilt and stamp == 'fresh'
            rd_det = meta_a if cmp_rd == 'METADATA' else content_a
            want = ([fname(prod, 0)] if rebuilt else []) + ([fname(n, 0) for n in _calls([reader])] if rd_det else [])
            stale = (cmp_in == 'METADATA' and m == 'flip') or (content_a and cmp_rd == 'METADATA' and not meta_a)
            out.append(dict(role='output_read_back', nested=nested, cmp='%s/%s/%s' % (cmp_in, cmp_out, cmp_rd), m=m,
                            stamp=stamp, prog=prog, mutate=mut(m, 'i'), want=want, stale_ok=stale))
    # R4 a separate reader of an output; the output file itself is tampered between builds
    for cmp_out, cmp_rd, nested in itertools.product(CMPS, CMPS, (False, True)):
        for m in list(MUTS):
            prod = bfn('a', [], cmp_out)
            reader = sbn([rd('a', cmp_rd)], 7)
            if nested:
                reader = sbn([reader], 8)
            prog = {'level': 0, 'root': [prod, reader]}
            rebuilt = detects(cmp_out, m)
            if rebuilt:
                # rebuilt with the original content and a fresh mtime
                rd_det = cmp_rd == 'METADATA'
            else:
                rd_det = detects(cmp_rd, m)
            want = ([fname(prod, 0)] if rebuilt else []) + ([fname(n, 0) for n in _calls([reader])] if rd_det else [])
            stale = (not rebuilt) and MUTS[m][1]
            out.append(dict(role='output_read_back_tampered', nested=nested, cmp='%s/%s' % (cmp_out, cmp_rd), m=m,
                            prog=prog, mutate=mut(m, 'a'), want=want, stale_ok=stale))
    # R6 producer and reader inside ONE record, with different comparison modes; the output is tampered
    for cmp_out, cmp_rd in itertools.product(CMPS, CMPS):
        for hi, host in enumerate((lambda b, r: [sbn([b, r])], lambda b, r: [sbn([sbn([b, r], 2)])], lambda b, r: [bfn('d/x', [b, r])])):
            for m in list(MUTS):
                prod = bfn('a', [], cmp_out)
                prog = {'level': 0, 'root': host(prod, rd('a', cmp_rd))}
                hosts = [fname(n, 0) for n in _calls(prog['root']) if n is not prod]
                rebuilt = detects(cmp_out, m)
                rd_det = detects(cmp_rd, m)
                want = (hosts + [fname(prod, 0)]) if rebuilt else (hosts if rd_det else [])
                stale = (not rebuilt) and MUTS[m][1]
                out.append(dict(role='read_back_inside_one_record', nested=hi >= 1, cmp='%s/%s' % (cmp_out, cmp_rd), m=m,
                                prog=prog, mutate=mut(m, 'a'), want=want, stale_ok=stale))
    # R5 read back across a nested-subbuild boundary (both directions), inside one cached record
    for cmp_rd in CMPS:
        for shape in ('inner_reads_outer_output', 'outer_reads_inner_output'):
            for m in (None, 'touch', 'flip', 'w'):
                if shape == 'inner_reads_outer_output':
                    prog = {'level': 0, 'root': [sbn([bfn('a', [rd('i', 'HASH')]), sbn([rd('a', cmp_rd)], 2)], 1)]}
                else:
                    prog = {'level': 0, 'root': [sbn([sbn([bfn('a', [rd('i', 'HASH')])], 2), rd('a', cmp_rd)], 1)]}
                everything = [fname(n, 0) for n in _calls(prog['root'])]
                changed = detects('HASH', m)      # the producer reads its input with HASH
                out.append(dict(role='read_back_across_nested_subbuild', nested=True, cmp='HASH/%s' % cmp_rd, m=m, shape=shape,
                                prog=prog, mutate=mut(m, 'i'), want=everything if changed else [], stale_ok=False))
    return out


def _calls(stmts):
    for s in stmts:
        if s['k'] in ('bf', 'sb'):
            yield s
            yield from _calls(s.get('ch', []))


def tasks(tier, seed):
    n = 16
    return [{'tier': tier, 'slice': [i, n]} for i in range(n)]


def work(ctx, task):
    i, n = task['slice']
    acc = Acc(PROP)
    world = World(ctx.sb, ctx.fb, 'K0')
    S = scenarios()
    for si in range(i, len(S), n):
        sc = S[si]
        for t0 in ('plain', 'after_rebuild'):
            world.start()
            world.mutate(['w', 'i', sc.get('input', 'A')])
            r1 = world.build(sc['prog'])
            if t0 == 'after_rebuild':
                world.build(sc['prog'])
            if sc['mutate'] is not None and not world.mutate(sc['mutate']):
                continue
            r2 = world.build(sc['prog'], check_ref=not sc['stale_ok'])
            r3 = world.build(sc['prog'], check_ref=not sc['stale_ok'])
            acc.count('histories')
            acc.count('scenarios')
            for r in (r1, r2, r3):
                for v in r.violations:
                    if v['clause'].startswith(('eqref.',)):
                        v = dict(v)
                        v['property'] = PROP
                        v['history'] = world.spec()
                        acc.violations.append(v)
            got = [x[0] for x in r2.real_inv]
            if got != sc['want']:
                v = viol('compare.invocations', {'role': sc['role'], 'cmp': sc['cmp'], 'mutation': str(sc['m']),
                                                 'nested': sc['nested'], 'stamp': sc.get('stamp'),
                                                 'missing': bool(set(sc['want']) - set(got)), 'extra': bool(set(got) - set(sc['want']))},
                         invoked=got, expected=sc['want'])
                v['property'] = PROP
                v['history'] = world.spec()
                acc.violations.append(v)
            if r3.real_inv:
                v = viol('compare.not_steady', {'role': sc['role'], 'cmp': sc['cmp'], 'mutation': str(sc['m'])}, invoked=r3.real_inv)
                v['property'] = PROP
                v['history'] = world.spec()
                acc.violations.append(v)
            acc.outcome(sc['role'], sc['cmp'], sc['m'], sc.get('stamp'), sc['nested'], got)
            if not acc.samples and got:
                acc.samples.append({'history': world.spec(), 'expected_invocations': sc['want']})
    return acc.result(world)


def coverage(res, tier):
    c = res.counters
    return {
        'states': len(res.states),
        'transitions': c.get('transitions', 0),
        'traces_validated_against_impl': c.get('transitions', 0),
        'scenarios': len(scenarios()),
        'histories': c.get('histories', 0),
        'distinct_outcomes': len(res.outcomes),
        'exhaustive': True,
        'rule': 'all combinations of role {input read, output integrity, output read back (producer reads an input, '
                'a separate reader reads the output; producer comparison x reader comparison x fresh/fixed mtime)} x '
                '{top-level, nested in a reused subtree} x {METADATA, HASH} x mutation {none, touch (metadata only; also mtime + 1 ns), '
                'flip / flipend (content only: first / last byte, same size, same mtime), rewrite (both), grow (size, same mtime), delete}, on a '
                'first and on an already rebuilt cache; input reads also for inputs of 1023, 1024, 1025, 1500, 2048 and 3000 '
                'bytes (around the 1024-byte unit of the hash loop). The invocation log of the rebuild must equal the expectation '
                'derived from the mode table (HASH: invoked iff bytes differ; METADATA: iff size or mtime differ), '
                'the following unchanged rebuild must invoke nothing, and the result equals the reference model '
                'except in the combination where the documentation concedes staleness.',
    }
