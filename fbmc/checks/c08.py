"""C08 at most one execution per output file / subbuild key in a build.
Sequential part: every placement of a duplicate in programs of <=3 call nodes
(same level, nested in the first, in a sibling subtree; first occurrence
ok/failed/caught) on histories where the subtrees are cached or rebuilt, with
the reference model (first in program order wins, second gets RuntimeError,
callee not invoked) and the effectiveness oracle (callers that caught a
rejection are re-executed later).  Thread part: two threads issuing the same
key, all schedules up to the preemption bound; the outcome must equal the
outcome of SOME sequential order."""
import itertools
import json
import time

from .. import gen
from .. import sched
from .. import thr
from ..history import World
from .common import Acc, outcome_sig

PROP = 'C08'


# ---------------------------------------------------------------------------
# sequential placements
# ---------------------------------------------------------------------------

def dup_programs():
    def leaf(kind, dup, mode, catch, other_i):
        if kind == 'bf':
            return {'k': 'bf', 'p': 'a' if dup else ['d/x', 'd/y'][other_i], 'mode': mode, 'catch': catch, 'ch': []}
        n = {'k': 'sb', 'mode': mode, 'catch': catch, 'ch': [], 'args': [0 if dup else 5 + other_i]}
        if dup:
            n['fn'] = 'DUP'
        return n
    shapes2 = [lambda a, b: [a, b], lambda a, b: [dict(a, ch=[b])]]
    shapes3 = [lambda a, b, c: [a, b, c], lambda a, b, c: [dict(a, ch=[b]), c], lambda a, b, c: [a, dict(b, ch=[c])],
               lambda a, b, c: [dict(a, ch=[b, c])], lambda a, b, c: [dict(a, ch=[dict(b, ch=[c])])]]
    for kind in ('bf', 'sb'):
        for m1 in ('ok', 'rb'):
            for c1, c2 in itertools.product((True, False), repeat=2):
                first = leaf(kind, True, m1, c1, 0)
                second = leaf(kind, True, 'ok', c2, 0)
                for sh in shapes2:
                    root = sh(dict(first), dict(second))
                    if kind == 'sb' and root[0].get('ch'):
                        root[0] = dict(root[0])
                        root[0].pop('fn', None)       # a non-leaf has another body: other function
                        continue
                    yield {'level': 0, 'root': root}
                for okind in ('bf', 'sb'):
                    for om in ('ok', 'rb'):
                        other = leaf(okind, False, om, True, 0)
                        for pos in itertools.permutations([first, second, other]):
                            if pos.index(first) > pos.index(second):
                                continue
                            for sh in shapes3:
                                root = sh(*[dict(x) for x in pos])
                                bad = False
                                for n in gen.call_nodes_of(root):
                                    if n.get('fn') == 'DUP' and n.get('ch'):
                                        bad = True
                                if bad:
                                    continue
                                yield {'level': 0, 'root': root}


def seq_tasks(tier):
    n = 32
    return [{'tier': tier, 'kind': 'seq', 'slice': [i, n]} for i in range(n)]


def seq_work(ctx, task):
    i, n = task['slice']
    acc = Acc(PROP)
    world = World(ctx.sb, ctx.fb, 'K0')
    mine = ('eqref.', 'effect.')
    for pi, prog in enumerate(dup_programs()):
        if pi % n != i:
            continue
        acc.count('programs')
        outs = sorted(set(gen.bf_paths(prog['root'])))
        muts = [None] + [['del', p] for p in outs] + [['w', 'i', 'A']]
        world.start()
        r1 = world.build(prog)
        take(acc, world, r1, mine)
        if world.diverged:
            continue
        h = world.save()
        for m in muts:
            world.restore(h)
            if m is not None and not world.mutate(m):
                continue
            acc.count('histories')
            for k in range(2):
                r = world.build(prog)
                take(acc, world, r, mine)
                if world.diverged:
                    break
            acc.outcome(outcome_sig(r1), outcome_sig(r))
            if not acc.samples:
                acc.samples.append({'history': world.spec()})
        world.drop(h)
    return acc.result(world)


def take(acc, world, r, mine):
    for v in r.violations:
        if v['clause'].startswith(mine):
            v = dict(v)
            v['property'] = PROP
            v['history'] = world.spec()
            acc.violations.append(v)


# ---------------------------------------------------------------------------
# threads
# ---------------------------------------------------------------------------

def bf(p, mode='ok', **kw):
    return dict({'o': 'bf', 'p': p, 'mode': mode}, **kw)


def sb(name, ch=(), mode='ok', args=(1,)):
    return {'o': 'sb', 'name': name, 'ch': list(ch), 'mode': mode, 'args': list(args)}


def thread_scenarios(tier):
    S = {
        'T1_same_file_two_threads': dict(threads=[[bf('d/a')], [bf('d/a')]]),
        'T1b_same_file_one_fails': dict(threads=[[bf('d/a', 'ra')], [bf('d/a')]]),
        'T1c_same_file_over_old_output': dict(prep=[bf('d/a', tag='old')], threads=[[bf('d/a')], [bf('d/a')]]),
        'T2_same_subbuild_two_threads': dict(threads=[[sb('s')], [sb('s')]]),
        'T2b_same_subbuild_one_fails': dict(threads=[[sb('s', mode='rb')], [sb('s', mode='rb')]]),
        'T3_dup_inside_reused_subtree': dict(prep=[sb('outer', [bf('d/a')])],
                                             threads=[[sb('outer', [bf('d/a')])], [bf('d/a')]]),
        'T4_dup_subbuild_nested': dict(threads=[[sb('outer', [sb('s')])], [sb('s')]]),
        'T5_cached_duplicates': dict(prep=[sb('s')], threads=[[sb('s')], [sb('s')]]),
        'T6_three_threads_same_file': dict(threads=[[bf('d/a')], [bf('d/a')], [bf('d/a')]]),
        'T6b_three_threads_over_foreign_then_rollback': dict(t0=[['mkdir', 'd'], ['w', 'd/a', 'A']], raise_after=True,
                                                            threads=[[bf('d/a')], [bf('d/a')], [bf('d/a')]]),
        'T7_dup_below_build_file_in_reused_subtree': dict(prep=[sb('outer', [bf('d/a', ch=[sb('s')])])],
                                                          threads=[[sb('outer', [bf('d/a', ch=[sb('s')])])], [sb('s')]]),
        'T8_dup_file_below_build_file_in_reused_subtree': dict(
            prep=[sb('outer', [bf('d/a', ch=[bf('d/b')])])],
            threads=[[sb('outer', [bf('d/a', ch=[bf('d/b')])])], [bf('d/b', tag='other function')]]),
    }
    # the cached record observes the directory that its own nested output (re)creates: while one thread applies
    # the record (reserving the directory) the other validates it
    S['T5c_cached_duplicate_subbuild_observing_its_own_new_dir'] = dict(
        bound=2,
        prep=[sb('s', [{'o': 'q', 'kind': 'is_dir', 'p': 'd'}, bf('d/a')])],
        threads=[[sb('s', [{'o': 'q', 'kind': 'is_dir', 'p': 'd'}, bf('d/a')])],
                 [sb('s', [{'o': 'q', 'kind': 'is_dir', 'p': 'd'}, bf('d/a')])]])
    # the losing duplicate has reserved the directory but is not yet rejected when the winner fails and a query follows
    S['T13_query_after_failed_winner_while_loser_in_flight'] = dict(
        bound=2,
        threads=[[bf('d/a', 'ra'), {'o': 'q', 'kind': 'is_dir', 'p': 'd'}], [bf('d/a')]])
    # the path was a directory in the previous build: both calls make room for the file
    S['T14_duplicate_file_where_a_directory_was'] = dict(
        prep=[bf('d/a/x')], threads=[[bf('d/a')], [bf('d/a')]])
    # both threads validate the same cached build_file record (which has recorded queries and a nested record)
    S['T5b_cached_duplicate_build_file_with_children'] = dict(
        t0=[['w', 'i', 'A']], prep=[bf('d/a', ch=[{'o': 'q', 'kind': 'read', 'p': 'i'}, bf('d/b')])],
        threads=[[bf('d/a', ch=[{'o': 'q', 'kind': 'read', 'p': 'i'}, bf('d/b')])],
                 [bf('d/a', ch=[{'o': 'q', 'kind': 'read', 'p': 'i'}, bf('d/b')])]])
    # the racing calls are made inside a subbuild, so a rejected call becomes part of a written record
    S['T10_rejected_reuse_inside_a_parent_record'] = dict(
        prep=[sb('outer', [bf('d/a', ch=[bf('d/b')])])],
        threads=[[dict(sb('parent', args=(9,)), par=[[sb('outer', [bf('d/a', ch=[bf('d/b')])])],
                                                    [bf('d/b', tag='other function')]])]])
    S['T11_duplicate_subbuild_inside_a_parent_record'] = dict(
        prep=[sb('outer', [sb('s')])],
        threads=[[dict(sb('parent', args=(9,)), par=[[sb('outer', [sb('s')])], [sb('s')]])]])
    # the first call is still writing its output while the other thread looks at a cached subtree that
    # contains the same path: the record of the first call must carry the result of the finished file
    for cmp in ('HASH', 'METADATA'):
        S['T12_%s_lookup_while_the_first_call_writes' % cmp] = dict(
            prep=[sb('A', [bf('d/a', cmp=cmp, args=[1])])],
            threads=[[bf('d/a', 'w2', cmp=cmp, args=[2])], [sb('A', [bf('d/a', cmp=cmp, args=[1])])]],
            after=[sb('reader', [{'o': 'q', 'kind': 'readh' if cmp == 'HASH' else 'read', 'p': 'd/a', 'cmp': cmp}], args=(7,))])
    # the lookup starts before the first call claims the file (needs two preemptions: explored to bound 2 in both tiers)
    S['T12b_HASH_lookup_started_before_the_claim'] = dict(
        bound=2,
        prep=[sb('A', [bf('d/a', cmp='HASH', args=[1])])],
        threads=[[sb('A', [bf('d/a', cmp='HASH', args=[1])])], [bf('d/a', 'w2', cmp='HASH', args=[2])]],
        after=[sb('reader', [{'o': 'q', 'kind': 'readh', 'p': 'd/a', 'cmp': 'HASH'}], args=(7,))])
    if tier != 'quick':
        S['T9_three_threads_same_subbuild'] = dict(threads=[[sb('s')], [sb('s')], [sb('s')]])
    return S


def forest_records(forest):
    """key -> set of canonical records, for every record that is neither raised nor a setup failure."""
    out = {}
    if not isinstance(forest, dict):
        return out

    def walk(nodes):
        for c in nodes:
            n = json.loads(c)
            if n.get('type') in ('build_file', 'subbuild'):
                if not n.get('raised') and not n.get('setupFailed'):
                    k = json.dumps([n['type'], n.get('filename'), n.get('funcName'), n.get('args'), n.get('kwargs')], sort_keys=True)
                    out.setdefault(k, set()).add(c)
                walk(n.get('sub', []))
    walk(forest.get('roots', []))
    return out


def acceptable(o, seqs):
    """Outcomes that are not the outcome of a sequential order but still satisfy
    the property: a call whose *reused cached subtree* contains a key that the
    other thread claims between the lookup and the registration is rejected
    with RuntimeError itself ('implied because a cached subtree containing it
    is being reused'), which no sequential order produces.  Everything the
    property promises must still hold: nothing but RuntimeError rejections,
    every function invoked at most once, some call won, the tree and what
    clean leaves are those of a sequential execution."""
    first = o.get('first', {})
    if first.get('failure') or first.get('thread_exceptions') or first.get('build') != 'done':
        return False
    res = list(first.get('ops', {}).values())
    if any(r[0] == 'exc' and r[1] not in ('RuntimeError',) for r in res):
        return False
    if o.get('cache_duplicates') or o.get('cache_comparison_mismatches'):
        return False        # a key is recorded twice in the committed cache file (also below a rejected record)
    if not any(r[0] == 'ok' for r in res):
        return False
    inv = first.get('inv', [])
    if len(inv) != len(set(inv)):
        return False
    seq = [json.loads(k) for k in seqs]
    # a call that succeeded returns what it returns in some sequential execution (a function that ran
    # saw a state no sequential order shows it otherwise); callers of a reuse-implied rejection made
    # inside a subbuild ('par') are exempt, their value reports the rejection
    for k, r in first.get('ops', {}).items():
        if r[0] == 'ok' and '"par"' not in json.dumps(r) and not k.startswith('after.'):
            if not any(s_['first']['ops'].get(k) == r for s_ in seq):
                if not any(op.get('par') for t in o.get('_threads', []) for op in t):
                    return False
    # a rejected call has no effect: the tree may lack what the rejected call would have built, but
    # everything present must occur in a sequential tree and every output a successful call reports
    # must be there; no empty directory may be left behind
    allowed = {json.dumps(e) for s in seq for e in s['tree']}
    tree = o.get('tree') or []
    if any(json.dumps(e) not in allowed for e in tree):
        return False
    present = {e[0] for e in tree}

    def keys(v, out):
        if isinstance(v, list):
            if len(v) == 3 and v[0] == 'sb' and isinstance(v[1], str):
                out.add('sb:' + v[1])
            for x in v:
                keys(x, out)
        return out

    def built(v, out):
        if isinstance(v, list):
            if len(v) == 3 and v[0] == 'bf' and isinstance(v[1], str):
                out.add(v[1])
            for x in v:
                built(x, out)
        return out
    need = set()
    claimed = []
    for r in res:
        if r[0] == 'ok':
            mine = set()
            built(r[1], mine)
            keys(r[1], mine)
            claimed.append(mine)
            built(r[1], need)
    # at most one successful call may report a given output file / subbuild as its own
    for i in range(len(claimed)):
        for j in range(i + 1, len(claimed)):
            if claimed[i] & claimed[j]:
                return False
    if not need <= present:
        return False
    for e in tree:
        if e[1] == 'd' and not any(x[0].startswith(e[0] + '/') for x in tree):
            return False
    if o.get('tree3') not in [s['tree3'] for s in seq] or o.get('clean') != 'ok':
        return False
    # 'without disturbing the ... cache record of the first call': every successful record of the committed
    # cache file is, node for node, the record that some sequential execution writes for the same key
    mine = forest_records(o.get('cache_forest'))
    theirs = {}
    for s_ in seq:
        for k, v in forest_records(s_.get('cache_forest')).items():
            theirs.setdefault(k, set()).update(v)
    for k, recs in mine.items():
        for c in recs:
            rv = json.dumps(json.loads(c).get('returnValue'), sort_keys=True)
            same_result = {t for t in theirs.get(k, set()) if json.dumps(json.loads(t).get('returnValue'), sort_keys=True) == rv}
            # (a record whose *result* no sequential order produces - the caller of a reuse-implied
            # rejection - is judged by the clauses above, not node for node)
            if same_result and c not in same_result:
                return False
    if isinstance(o.get('rebuild'), str) and o['rebuild'].startswith('EXC'):
        return False
    return True


def thread_work(ctx, task):
    sched.install(ctx.fb)
    sc = thread_scenarios(task['tier'])[task['scenario']]
    R = thr.Runner(ctx)
    counters = {'executions': 0}
    violations = []
    outcomes = set()
    seqs = {}
    for order in thr.orders(sc):
        o = R.run_sequential(sc, order)
        seqs.setdefault(json.dumps(o, sort_keys=True), order)
        counters['executions'] += 1
    b = max(sc.get('bound', 0), {'quick': 1, 'thorough': 2}[task['tier']])
    s1, o1 = R.run_concurrent(sc, [])
    s2, o2 = R.run_concurrent(sc, [])
    if json.dumps(o1, sort_keys=True) != json.dumps(o2, sort_keys=True) or s1.choices != s2.choices:
        return {'harness_error': 'scenario %s: default schedule not reproducible' % task['scenario'], 'task': task}
    completed = None
    capped = False
    line_execs = 0
    passes = [(x, False) for x in range(0, b + 1)]
    if len(sc['threads']) <= 2 or task['tier'] != 'quick':
        passes.append((1, True))     # last: line-granularity audit
    for bound, line in passes:
        ex = sched.Explorer(lambda p: R.run_concurrent(sc, p, line=line), bound, deadline=ctx.deadline)
        for s, o in ex:
            counters['executions'] += 1
            line_execs += 1 if line else 0
            js = json.dumps(o, sort_keys=True)
            outcomes.add(js)
            if js not in seqs and not acceptable(dict(o, _threads=sc['threads']), seqs):
                fail = o['first'].get('failure')
                clause = 'dup.deadlock' if fail and fail.startswith('Deadlock') else (
                    'dup.harness' if fail else 'dup.not_linearizable')
                ninv = len(o['first'].get('inv', []))
                oks = sorted(v[0] for v in o['first'].get('ops', {}).values())
                if len(violations) < 5:
                    violations.append({'property': PROP, 'engine': 'checks.c08', 'clause': clause,
                                       'facts': {'scenario': task['scenario'], 'results': oks, 'invocations': ninv},
                                       'detail': {'preemptions': s.preemptions(), 'first': o['first'], 'tree': o.get('tree'),
                                                  'sequential_outcomes': [json.loads(k)['first'] for k in seqs]},
                                       'history': {'scenario': sc, 'choices': list(s.choices), 'name': task['scenario'],
                                                   'line': line}})
        if not ex.complete:
            capped = True
            break
        if not line:
            completed = bound
    return {'counters': {'executions': counters['executions'], 'thread_scenarios': 1, 'b%s' % completed: 1,
                         'line_audit_executions': line_execs},
            'violations': violations, 'outcomes': {task['scenario'] + x for x in outcomes},
            'samples': [{'scenario': task['scenario'], 'spec': sc, 'sequential_outcomes': len(seqs),
                         'bound_completed': completed, 'executions': counters['executions']}],
            'states': set(), 'capped': capped}


def tasks(tier, seed):
    return seq_tasks(tier) + [{'tier': tier, 'kind': 'thr', 'scenario': n} for n in thread_scenarios(tier)]


def work(ctx, task):
    if task['kind'] == 'seq':
        return seq_work(ctx, task)
    return thread_work(ctx, task)


def coverage(res, tier):
    c = res.counters
    return {
        'states': len(res.states) + c.get('executions', 0),
        'transitions': c.get('transitions', 0) + c.get('executions', 0),
        'traces_validated_against_impl': c.get('transitions', 0) + c.get('executions', 0),
        'sequential_programs': c.get('programs', 0),
        'sequential_histories': c.get('histories', 0),
        'thread_scenarios': c.get('thread_scenarios', 0),
        'schedules_executed': c.get('executions', 0),
        'line_granularity_audit_executions': c.get('line_audit_executions', 0),
        'scenarios_completed_at_bound': {k: v for k, v in c.items() if k.startswith('b') and k[1:].lstrip('-').isdigit()},
        'distinct_outcomes': len(res.outcomes),
        'exhaustive': not res.capped,
        'rule': 'sequential: all programs of 2-3 call nodes that contain the same build_file path / subbuild key twice '
                '(every forest shape, every position pair, first occurrence ok or failing, caught or not, third node '
                'bf/sb ok/failing) x {unchanged, each output deleted, unrelated input written} x three builds, compared '
                'with the reference model and the effectiveness oracle. threads: every schedule with <= bound '
                'preemptions of two threads issuing the same key (fresh, one failing, over an old output, inside a '
                'reused subtree, nested, cached), plus the same scenarios with every source line of the library as a '
                'scheduling point at bound 1: the outcome (who got the value, who got RuntimeError, invocation '
                'count, tree, next rebuild, clean) must equal the outcome of some sequential order.',
    }


def replay(v):
    if 'scenario' not in v.get('history', {}):
        return None
    from .c09 import replay as r9
    return r9(v)
