"""C11 values cross the API by value: every value-carrying edge x every
container position of three value shapes x every in-place edit; the run with
the edit must be indistinguishable (return values, invocation logs, cache
decisions over three consecutive builds) from its twin without the edit."""
import collections
import copy
import os

from .. import universe as uni
from ..valmc import trepr

PROP = 'C11'
SHAPES = [
    [1, [2, 3], {'a': [4]}],
    {'k': [1, 2], 'd': {'x': [5]}},
    [[], {}, [[6]]],
]
EDGES = ['sb_args_callee', 'sb_kwargs_callee', 'bf_args_callee', 'bf_kwargs_callee',
         'sb_args_caller_after', 'bf_kwargs_caller_after',
         'sb_return_fresh', 'sb_return_cached', 'bf_return_fresh', 'bf_return_cached',
         'nested_return_fresh', 'nested_return_cached',
         'sb_return_kept_by_callee', 'bf_return_kept_by_callee',
         'list_dir_result', 'walk_result', 'walk_result_root_uncached']


def containers(v, path=()):
    if isinstance(v, list):
        yield path, v
        for i, x in enumerate(v):
            yield from containers(x, path + (i,))
    elif isinstance(v, dict):
        yield path, v
        for k, x in v.items():
            yield from containers(x, path + (k,))
    elif isinstance(v, tuple):
        for i, x in enumerate(v):
            yield from containers(x, path + (i,))


def edits_for(c):
    if isinstance(c, list):
        out = [('append',), ('insert0',), ('clear',)]
        if c:
            out += [('pop',), ('set0',), ('reverse',)]
        return out
    out = [('setnew',), ('clear',)]
    if c:
        out += [('delfirst',), ('setfirst',)]
    return out


def get_at(v, path):
    for p in path:
        v = v[p]
    return v


def apply_edit(v, path, edit):
    c = get_at(v, path)
    e = edit[0]
    if isinstance(c, list):
        if e == 'append':
            c.append('EDIT')
        elif e == 'insert0':
            c.insert(0, 'EDIT')
        elif e == 'clear':
            del c[:]
        elif e == 'pop':
            c.pop()
        elif e == 'set0':
            c[0] = 'EDIT'
        elif e == 'reverse':
            c.reverse()
            c.append('R')
    else:
        if e == 'setnew':
            c['EDIT'] = 1
        elif e == 'clear':
            c.clear()
        elif e == 'delfirst':
            del c[next(iter(c))]
        elif e == 'setfirst':
            c[next(iter(c))] = 'EDIT'


def tasks(tier, seed):
    return [{'tier': tier, 'edge': e} for e in EDGES]


def run_scenario(ctx, edge, shape, path, edit, mutate):
    """Three consecutive builds; returns (observations, invocation logs)."""
    sb = ctx.sb
    FB = ctx.fb.FileBuilder
    sb.reset()
    cache = sb.p('c')
    os.mkdir(sb.p('d'))
    for n in ('p', 'q'):
        with open(sb.p('d/' + n), 'w') as f:
            f.write(n)
    os.mkdir(sb.p('d/s'))
    with open(sb.p('d/s/t'), 'w') as f:
        f.write('t')
    obs, invs = [], []

    def mut(v):
        if mutate:
            try:
                apply_edit(v, path, edit)
            except (TypeError, AttributeError, IndexError, KeyError) as e:
                # the handed-out object is of a different shape (e.g. a tuple): nothing to edit
                return

    for build_no in range(3):
        inv = []
        kept = {}

        def leaf_sb(b, *a, **kw):
            inv.append(['leaf_sb', copy.deepcopy(a), copy.deepcopy(kw)])
            if edge == 'sb_args_callee':
                mut(a[0])
            if edge == 'sb_kwargs_callee':
                mut(kw['k'])
            r = copy.deepcopy(shape)
            kept['r'] = r
            return r

        def leaf_bf(b, p, *a, **kw):
            inv.append(['leaf_bf', copy.deepcopy(a), copy.deepcopy(kw)])
            if edge == 'bf_args_callee':
                mut(a[0])
            if edge == 'bf_kwargs_callee':
                mut(kw['k'])
            with open(p, 'w') as f:
                f.write('x')
            r = copy.deepcopy(shape)
            kept['r'] = r
            return r

        def lister(b, which):
            inv.append(['lister', which])
            if which == 'list_dir':
                r = b.list_dir(sb.p('d'))
                snap = sorted(copy.deepcopy(r))
                mut_listing(r)
            else:
                r = b.walk(sb.p('d'))
                snap = copy.deepcopy([[d, sorted(ds), sorted(fs)] for d, ds, fs in r])
                mut_listing(r)
            return snap

        def mut_listing(r):
            if not mutate:
                return
            e = edit[0]
            target = r
            if path and path[0] == 'inner' and r and isinstance(r[0], tuple):
                target = r[0][1] if path[1] == 'dirs' else r[0][2]
            try:
                if e in ('append', 'setnew'):
                    target.append('EDIT')
                elif e in ('clear',):
                    del target[:]
                elif e in ('pop', 'delfirst'):
                    target.pop()
                elif e in ('insert0',):
                    target.insert(0, 'EDIT')
                elif e in ('set0', 'setfirst'):
                    target[0] = 'EDIT' if not isinstance(target[0], tuple) else ('EDIT', [], [])
                elif e == 'reverse':
                    target.reverse()
            except (IndexError, AttributeError, TypeError):
                pass

        def root(b):
            o = []
            if edge in ('sb_args_callee', 'sb_args_caller_after'):
                arg = copy.deepcopy(shape)
                o.append(copy.deepcopy(b.subbuild('leaf', leaf_sb, arg)))
                if edge == 'sb_args_caller_after':
                    mut(arg)
            elif edge == 'sb_kwargs_callee':
                o.append(copy.deepcopy(b.subbuild('leaf', leaf_sb, k=copy.deepcopy(shape))))
            elif edge == 'bf_args_callee':
                o.append(copy.deepcopy(b.build_file(sb.p('o'), 'leaf', leaf_bf, copy.deepcopy(shape))))
            elif edge in ('bf_kwargs_callee', 'bf_kwargs_caller_after'):
                arg = copy.deepcopy(shape)
                o.append(copy.deepcopy(b.build_file(sb.p('o'), 'leaf', leaf_bf, k=arg)))
                if edge == 'bf_kwargs_caller_after':
                    mut(arg)
            elif edge in ('sb_return_fresh', 'sb_return_cached', 'sb_return_kept_by_callee'):
                r = b.subbuild('leaf', leaf_sb, 1)
                o.append(copy.deepcopy(r))
                if edge == 'sb_return_fresh' and build_no == 0:
                    mut(r)
                if edge == 'sb_return_cached' and build_no == 1:
                    mut(r)
                if edge == 'sb_return_kept_by_callee' and build_no == 0 and 'r' in kept:
                    mut(kept['r'])
            elif edge in ('bf_return_fresh', 'bf_return_cached', 'bf_return_kept_by_callee'):
                r = b.build_file(sb.p('o'), 'leaf', leaf_bf, 1)
                o.append(copy.deepcopy(r))
                if edge == 'bf_return_fresh' and build_no == 0:
                    mut(r)
                if edge == 'bf_return_cached' and build_no == 1:
                    mut(r)
                if edge == 'bf_return_kept_by_callee' and build_no == 0 and 'r' in kept:
                    mut(kept['r'])
            elif edge in ('nested_return_fresh', 'nested_return_cached'):
                def outer(b2):
                    inv.append(['outer'])
                    r = b2.subbuild('leaf', leaf_sb, 1)
                    snap = copy.deepcopy(r)
                    mut(r)
                    return snap
                if edge == 'nested_return_cached' and build_no == 0:
                    # first record the leaf on its own, so that outer gets it from the cache in build 2
                    o.append(copy.deepcopy(b.subbuild('leaf', leaf_sb, 1)))
                else:
                    o.append(copy.deepcopy(b.subbuild('outer', outer)))
            elif edge == 'list_dir_result':
                o.append(b.subbuild('lister', lister, 'list_dir'))
            elif edge == 'walk_result':
                o.append(b.subbuild('lister', lister, 'walk'))
            elif edge == 'walk_result_root_uncached':
                r = b.walk(sb.p('d'))
                o.append(copy.deepcopy([[d, sorted(ds), sorted(fs)] for d, ds, fs in r]))
                mut_listing(r)
                r2 = b.walk(sb.p('d'))
                o.append(copy.deepcopy([[d, sorted(ds), sorted(fs)] for d, ds, fs in r2]))
            return o
        try:
            rv = FB.build(cache, 'n', root)
            obs.append(trepr(rv))
        except Exception as e:
            obs.append('EXC ' + type(e).__name__ + ' ' + str(e)[:80])
        invs.append(inv)
    return obs, [[x[0] for x in i] for i in invs], [trepr(i) for i in invs]


def work(ctx, task):
    edge = task['edge']
    counters = collections.Counter()
    violations = []
    outcomes = set()
    samples = []
    listing = edge in ('list_dir_result', 'walk_result', 'walk_result_root_uncached')
    if listing:
        cases = []
        paths = [('outer',)] + ([('inner', 'dirs'), ('inner', 'files')] if 'walk' in edge else [])
        for p in paths:
            for e in [('append',), ('clear',), ('pop',), ('insert0',), ('set0',), ('reverse',)]:
                cases.append((None, p, e))
    else:
        cases = []
        for si, shape in enumerate(SHAPES):
            for path, c in containers(shape):
                for e in edits_for(c):
                    cases.append((shape, path, e))
    for shape, path, e in cases:
        twin = run_scenario(ctx, edge, shape, path, e, False)
        got = run_scenario(ctx, edge, shape, path, e, True)
        counters['cases'] += 1
        counters['builds'] += 6
        outcomes.add((edge, twin[0][-1], tuple(map(tuple, twin[1]))))
        if got != twin:
            which = 'values' if got[0] != twin[0] else ('invocations' if got[1] != twin[1] else 'received_args')
            if len(violations) < 30:
                violations.append({'property': PROP, 'engine': 'checks.c11', 'clause': 'alias.' + which,
                                   'facts': {'edge': edge},
                                   'detail': {'shape': trepr(shape), 'path': list(path), 'edit': e[0],
                                              'with_edit': [got[0], got[1]], 'twin': [twin[0], twin[1]]},
                                   'history': {'edge': edge, 'shape': shape, 'path': list(path), 'edit': list(e)}})
    if cases:
        samples.append({'edge': edge, 'case': {'shape': trepr(cases[0][0]), 'path': list(cases[0][1]), 'edit': cases[0][2][0]},
                        'cases': len(cases)})
    return {'counters': dict(counters), 'violations': violations, 'outcomes': outcomes, 'samples': samples, 'states': set()}


def coverage(res, tier):
    c = res.counters
    return {
        'states': c.get('cases', 0),
        'transitions': c.get('builds', 0),
        'traces_validated_against_impl': c.get('builds', 0),
        'cases': c.get('cases', 0),
        'edges': EDGES,
        'distinct_outcomes': len(res.outcomes),
        'exhaustive': True,
        'rule': 'states = (edge, value shape, container position, edit) cases: 17 value-carrying API edges x every '
                'list/dict node of three nested shapes x {append, insert, pop, setitem, clear, reverse / set, del, '
                'clear}; transitions = real builds (three consecutive builds with the edit and three without). The '
                'pair must agree on every return value (snapshotted before the edit), on every invocation log with '
                'the arguments the callee received, i.e. on every cache decision.',
    }


def replay(v):
    uni.import_library()

    class Ctx:
        pass
    import fbmc.universe as u
    ctx = Ctx()
    ctx.fb = u.import_library()
    ctx.sb = u.Sandbox('replay')
    h = v['history']
    a = run_scenario(ctx, h['edge'], h['shape'], tuple(h['path']), tuple(h['edit']), True)
    b = run_scenario(ctx, h['edge'], h['shape'], tuple(h['path']), tuple(h['edit']), False)
    print('edge=%s shape=%s path=%s edit=%s' % (h['edge'], h['shape'], h['path'], h['edit']))
    print(' with edit :', a[0], a[1])
    print(' twin      :', b[0], b[1])
    ctx.sb.destroy()
    return 1 if a != b else 0
