"""C09 thread-safety: 2-3 threads calling build_file / subbuild / queries on
one builder (operations that do not depend on each other); ALL schedules with
at most k preemptions at lock, file-system-call and flag points.  Oracle: no
deadlock, no spurious exception, and first-build results, tree, the following
unchanged rebuild (what it re-executes), and clean are identical to the
sequential execution of the same operations (every sequential order agrees)."""
import json
import time

from .. import sched
from .. import thr

PROP = 'C09'


def bf(p, mode='ok', **kw):
    return dict({'o': 'bf', 'p': p, 'mode': mode}, **kw)


def sb(name, ch=(), mode='ok', args=(1,)):
    return {'o': 'sb', 'name': name, 'ch': list(ch), 'mode': mode, 'args': list(args)}


def q(kind, p):
    return {'o': 'q', 'kind': kind, 'p': p}


def scenarios(tier):
    S = {
        'S1_two_files_one_new_dir': dict(threads=[[bf('d/a')], [bf('d/b')]]),
        'S2_nested_new_dirs_shared_prefix': dict(threads=[[bf('d/a')], [bf('d/e/b')]]),
        'S2b_deep_shared_prefix': dict(threads=[[bf('d/e/a')], [bf('d/e/b')]]),
        'S3_success_and_failure_one_new_dir': dict(threads=[[bf('d/a')], [bf('d/b', 'ra')]]),
        'S3b_two_failures': dict(threads=[[bf('d/e/a', 'ra')], [bf('d/b', 'rb')]]),
        'S3c_two_failures_two_levels_deep': dict(threads=[[bf('d/e/a', 'ra')], [bf('d/e/b', 'rb')]]),
        # queries racing with a failing build: what a query sees while the other thread is in the middle of
        # its call may differ, but once everything has settled the view must be the sequential one
        'S15_query_during_failing_build': dict(
            threads=[[bf('d/e/a', 'ra')], [q('is_dir', 'd/e'), q('list_dir', 'd'), q('exists', 'd/e/a')]],
            after=[q('is_dir', 'd/e'), q('is_dir', 'd'), q('list_dir', ''), q('walk', '')], transient_queries={'keep': ['0.0']}),
        'S16_failing_mkdir_beside_a_build': dict(
            threads=[[bf('d/' + 'L' * 300 + '/a')], [bf('d/b')]],
            after=[q('is_dir', 'd'), q('list_dir', 'd')]),
        'S16b_failing_mkdir_beside_a_query': dict(
            prep=[bf('d/e/z')], prep_mut=[['del', 'd/e/z']],
            threads=[[bf('d/e/' + 'L' * 300 + '/a')], [q('is_dir', 'd/e'), q('exists', 'd/e/z')]],
            after=[q('is_dir', 'd/e'), q('is_dir', 'd'), q('list_dir', '')], transient_queries={'keep': ['0.0']}),
        'S5b_two_outputs_below_a_former_file': dict(prep=[bf('d')], threads=[[bf('d/y')], [bf('d/z')]]),
        'S4_stale_dir_repopulated': dict(prep=[bf('d/a'), bf('d/e/z')], threads=[[bf('d/b')], [bf('d/e/y')]]),
        'S5_file_dir_swap_beside_build': dict(prep=[bf('d/e/z')], threads=[[bf('d/e')], [bf('q/b')]]),
        'S6_builds_and_queries_unrelated': dict(t0=[['w', 'i', 'A'], ['mkdir', 'u'], ['w', 'u/v', 'A']],
                                                threads=[[bf('d/a')], [q('list_dir', 'u'), q('read', 'i'), q('walk', 'u')]]),
        'S7_cached_subtree_beside_rebuild': dict(prep=[sb('s', [bf('d/a')]), bf('d/b')], prep_mut=[['del', 'd/b']],
                                                 threads=[[sb('s', [bf('d/a')])], [bf('d/b')]]),
        # both records are valid: the two reuse paths take the cache's locks at the same time
        'S7b_cached_subbuild_beside_cached_file': dict(t0=[['w', 'i', 'A']],
                                                       prep=[sb('s', [q('read', 'i'), bf('d/a')]), bf('e/b', ch=[sb('t', args=(2,))])],
                                                       threads=[[sb('s', [q('read', 'i'), bf('d/a')])], [bf('e/b', ch=[sb('t', args=(2,))])]]),
        'S7c_cached_plain_subbuild_beside_cached_plain_file': dict(t0=[['w', 'i', 'A']],
                                                                   prep=[sb('s', [q('read', 'i')]), bf('e/b')],
                                                                   threads=[[sb('s', [q('read', 'i')])], [bf('e/b')]]),
        'S8_concurrent_hash_reads': dict(t0=[['w', 'i', 'A']],
                                         threads=[[sb('r1', [q('readh', 'i')])], [sb('r2', [q('readh', 'i')], args=(2,))]]),
        'S9_threads_inside_a_subbuild': dict(threads=[[dict(sb('par'), par=[[bf('d/a')], [bf('d/b', 'ra')]])], [bf('e/c')]]),
        'S12_two_rebuilds_then_rollback': dict(prep=[bf('d/a', tag='old'), bf('e/b', tag='old')],
                                               threads=[[bf('d/a')], [bf('e/b')]], raise_after=True),
        'S13_overwrite_foreign_then_rollback': dict(t0=[['w', 'a', 'A'], ['w', 'i', 'A']],
                                                    threads=[[bf('a')], [bf('i')]], raise_after=True),
        'S10_failure_beside_query_of_other_dir': dict(t0=[['mkdir', 'u']], threads=[[bf('d/a', 'ra')], [q('is_dir', 'u'), bf('u/b')]]),
    }
    if tier != 'quick':
        S['S9b_threads_inside_a_cached_subbuild'] = dict(
            prep=[dict(sb('par'), par=[[bf('d/a')], [bf('d/b')]])], prep_mut=[['del', 'd/a']],
            threads=[[dict(sb('par'), par=[[bf('d/a')], [bf('d/b')]])], [bf('d/c')]])
        S['S1x3_three_threads'] = dict(threads=[[bf('d/a')], [bf('d/b')], [bf('d/c', 'ra')]])
        S['S11_two_ops_each'] = dict(threads=[[bf('d/a'), bf('e/a')], [bf('e/b'), bf('d/b')]])
    return S


def bounds(tier):
    return {'quick': dict(bound=1), 'thorough': dict(bound=2)}[tier]


def tasks(tier, seed):
    return [{'tier': tier, 'scenario': name} for name in scenarios(tier)]


def work(ctx, task):
    sched.install(ctx.fb)
    sc = scenarios(task['tier'])[task['scenario']]
    R = thr.Runner(ctx)
    counters = {'executions': 0, 'points_max': 0}
    violations = []
    outcomes = set()
    samples = []
    # sequential twin: every order must agree, else the scenario is not a C09 scenario
    seqs = {}
    for order in thr.orders(sc):
        o = R.run_sequential(sc, order)
        seqs.setdefault(json.dumps(o, sort_keys=True), order)
        counters['executions'] += 1
    if len(seqs) != 1:
        return {'harness_error': 'scenario %s: sequential orders disagree (%d outcomes)' % (task['scenario'], len(seqs)),
                'task': task}
    want = next(iter(seqs))
    b = bounds(task['tier'])['bound']
    deadline = ctx.deadline
    # determinism: the first schedule twice
    s1, o1 = R.run_concurrent(sc, [])
    s2, o2 = R.run_concurrent(sc, [])
    if json.dumps(o1, sort_keys=True) != json.dumps(o2, sort_keys=True) or s1.choices != s2.choices:
        return {'harness_error': 'scenario %s: default schedule not reproducible' % task['scenario'], 'task': task}
    completed = None
    capped = False
    passes = [(bound, False) for bound in range(0, b + 1)]
    nthreads = len(sc['threads']) + sum(len(op.get('par', [])) for t in sc['threads'] for op in t)
    if nthreads <= 2 or task['tier'] != 'quick':
        passes.append((1, True))     # last: line-granularity audit
    line_execs = 0
    for bound, line in passes:
        ex = sched.Explorer(lambda p: R.run_concurrent(sc, p, line=line), bound, deadline=deadline)
        for s, o in ex:
            if line:
                line_execs += 1
            counters['executions'] += 1
            js = json.dumps(o, sort_keys=True)
            outcomes.add(js)
            if js != want:
                fail = o['first'].get('failure')
                clause = 'threads.deadlock' if fail and fail.startswith('Deadlock') else (
                    'threads.harness' if fail else 'threads.differs_from_sequential')
                diff = [k for k in json.loads(want) if json.loads(want).get(k) != o.get(k)]
                if len(violations) < 5:
                    violations.append({'property': PROP, 'engine': 'checks.c09', 'clause': clause,
                                       'facts': {'scenario': task['scenario'], 'differs_in': diff[:3]},
                                       'detail': {'preemptions': s.preemptions(), 'got': {k: o.get(k) for k in diff[:3]},
                                                  'want': {k: json.loads(want).get(k) for k in diff[:3]}},
                                       'history': {'scenario': sc, 'choices': list(s.choices), 'name': task['scenario'],
                                                   'line': line}})
        if line:
            counters['line_points_max'] = ex.max_points
        else:
            counters['points_max'] = max(counters['points_max'], ex.max_points)
        if not ex.complete:
            capped = True
            break
        if not line:
            completed = bound
    counters['bound_completed_min'] = completed if completed is not None else -1
    samples.append({'scenario': task['scenario'], 'spec': sc, 'bound_completed': completed, 'executions': counters['executions'],
                    'schedule_points': counters['points_max'], 'distinct_outcomes': len(outcomes),
                    'line_granularity_audit': {'bound': 1, 'executions': line_execs,
                                               'schedule_points': counters.get('line_points_max')}})
    return {'counters': {'executions': counters['executions'], 'scenarios': 1, 'line_audit_executions': line_execs,
                         'b%s' % completed: 1}, 'violations': violations,
            'outcomes': {task['scenario'] + x for x in outcomes}, 'samples': samples, 'states': set(), 'capped': capped,
            }


def coverage(res, tier):
    c = res.counters
    return {
        'states': c.get('executions', 0),
        'transitions': c.get('executions', 0),
        'traces_validated_against_impl': c.get('executions', 0),
        'scenarios': c.get('scenarios', 0),
        'preemption_bound_requested': bounds(tier)['bound'],
        'scenarios_completed_at_bound': {k: v for k, v in c.items() if k.startswith('b') and k[1:].lstrip('-').isdigit()},
        'line_granularity_audit_executions': c.get('line_audit_executions', 0),
        'distinct_outcomes_total': len(res.outcomes),
        'exhaustive': not res.capped,
        'rule': 'states = schedules executed (each a complete run of the real library under the cooperative '
                'scheduler); every schedule with <= bound preemptions (iterated 0..bound) of every scenario; '
                'scheduling points at every cooperative-lock acquire, every wrapped os.* / open call, every '
                'read/write of the unsynchronised flags, thread start/join/exit; plus a granularity audit: the same '
                'scenarios with EVERY source line of file_builder/*.py as a scheduling point (sys.settrace) at '
                'preemption bound 1. The outcome (per-operation results, '
                'tree, thread exceptions, unchanged sequential rebuild log and results, tree after clean, temp dir) '
                'must equal the outcome of the sequential execution, for which all orders were checked to agree.',
    }


def replay(v):
    from .. import universe as uni

    class Ctx:
        pass
    ctx = Ctx()
    ctx.fb = uni.import_library()
    ctx.sb = uni.Sandbox('replay')
    ctx.deadline = None
    sched.install(ctx.fb)
    R = thr.Runner(ctx)
    h = v['history']
    s, o = R.run_concurrent(h['scenario'], h['choices'], line=bool(h.get('line')))
    seq = R.run_sequential(h['scenario'], next(iter(thr.orders(h['scenario']))))
    print('scenario', h.get('name'), 'choices with non-default decisions at', [i for i, c in enumerate(h['choices']) if c])
    for k in seq:
        if seq[k] != o.get(k):
            print('  %s:\n     concurrent: %s\n     sequential: %s' % (k, json.dumps(o.get(k))[:400], json.dumps(seq[k])[:400]))
    labels = [p[2] for p in s.points]
    print('  schedule points:', len(labels), 'switches at', [(i, labels[i]) for i, c in enumerate(s.choices) if c][:12])
    # The recorded choice list only fits the code it was recorded on (another tree has other scheduling points), so
    # the verdict comes from exploring the recorded *scenario* again, to the quick bound, with the check's own oracle.
    verdict = _rejudge(ctx, v)
    ctx.sb.destroy()
    return verdict


def _rejudge(ctx, v):
    from .. import engine
    import importlib
    mod = importlib.import_module('fbmc.' + v.get('engine', 'checks.c09'))
    name = v['history'].get('name')
    if mod.__name__.endswith('c08'):
        res = mod.thread_work(ctx, {'tier': 'quick', 'kind': 'thr', 'scenario': name}) if name in mod.thread_scenarios('quick') else None
    else:
        res = work(ctx, {'tier': 'quick', 'scenario': name}) if name in scenarios('quick') else None
    if res is None:
        print('  scenario %s is not part of the quick tier any more: judged by the recorded schedule only' % name)
        return 1
    if res.get('harness_error'):
        print('  HARNESS', res['harness_error'])
        return 2
    findings = engine.load_findings()
    new = [x for x in res['violations'] if engine.match_finding(x, findings) is None]
    print('  re-explored scenario %s to the quick bound: %d executions, %d violations (%d not listed as open findings)' % (
        name, res['counters'].get('executions', 0), len(res['violations']), len(new)))
    return 1 if new else 0
