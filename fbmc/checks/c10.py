"""C10 build_file contract: inside the body the target is absent, the parents
exist and the path is the absolute normalised str; after success the target is
a regular file with the written bytes; after a failure (raise before/after
write, no create, non-JSON return, mkdir failing at each level, over-long path
component) the same exception object propagates, the target is gone, the
parents the call created are gone at once virtually (batteries) and on disk by
the end of the build (tree)."""
import errno
import time

from .. import gen
from ..history import World
from ..universe import mutation_alphabet
from .common import Acc, relevant_mutations, outcome_sig

PROP = 'C10'
MINE = ('contract.', 'eqref.', 'rollback.exception_identity')
LONG = 'L' * 300


def spaces(tier):
    small = dict(paths=['a', 'd', 'd/x', 'd/y', 'd/e/z'], bf_modes=['ok', 'rb', 'ra'], sb_modes=['ok', 'rb'])
    longp = dict(paths=[LONG + '/z', 'd/' + LONG + '/z', 'd/e/' + LONG + '/z', 'd/' + LONG + '/' + LONG + '/z'],
                 bf_modes=['ok', 'rb'], sb_modes=[])
    excs = dict(bf_modes=['rT', 'rS', 'rO', 'rR'], sb_modes=['rT', 'rS', 'rO', 'rR'])
    if tier == 'quick':
        return [
            dict(size=1, level=1, cfg='K0', t0=['empty', 'full'], mut='none', kw=excs),
            dict(size=2, level=0, cfg='K0', t0=['empty'], mut='none', kw=dict(excs, paths=['a', 'd/x'])),
            dict(size=1, level=2, cfg='K0', t0=list(gen.T0S), mut='all', faults='mkdir'),
            dict(size=1, level=0, cfg='K0', t0=['empty', 'full', 'dir_d_j'], mut='rel', faults='mkdir'),
            dict(size=1, level=2, cfg='K0', t0=['empty', 'dir_d', 'dir_d_e', 'file_d'], mut='none', kw=longp),
            dict(size=2, level=1, cfg='K0', t0=['empty', 'dir_d_j'], mut='none', kw=small, faults='mkdir'),
            # a component no file can have (embedded NUL): os.mkdir raises ValueError, not OSError, after d was made
            dict(size=1, level=2, cfg='K0', t0=['empty', 'dir_d'], mut='none',
                 kw=dict(paths=['d/n\0x/z', 'n\0x/z', 'd/e/n\0x/z'], bf_modes=['ok', 'rb'], sb_modes=[])),
            dict(family='pairs', size=1, level=1, cfg='K0', t0=['empty'], mut='none', faults='mkdir'),
            dict(size=2, level=2, cfg='K0', t0=['empty', 'dir_d'], mut='none',
                 kw=dict(paths=['d/e/z', 'd/e/w', 'd/x'], bf_modes=['ok', 'rb', 'ra', 'nc'], sb_modes=['ok'])),
        ]
    return [
        dict(size=1, level=1, cfg='K0', t0=list(gen.T0S), mut='rel', kw=excs),
        dict(size=2, level=0, cfg='K0', t0=['empty', 'full'], mut='none', kw=excs),
    ] + [
        dict(size=1, level=l, cfg=c, t0=list(gen.T0S), mut='all', faults='mkdir') for l in (0, 2) for c in ('K0', 'K1')
    ] + [
        dict(size=1, level=2, cfg='K0', t0=list(gen.T0S), mut='none', kw=longp),
        dict(size=1, level=2, cfg='K0', t0=list(gen.T0S), mut='none',
             kw=dict(paths=['d/n\0x/z', 'n\0x/z', 'd/e/n\0x/z'], bf_modes=['ok', 'rb', 'ra'], sb_modes=[])),
        dict(size=2, level=2, cfg='K0', t0=['empty', 'dir_d_j', 'full', 'file_d'], mut='outputs', faults='mkdir'),
        dict(family='chain3', size=3, level=1, cfg='K0', t0=['empty'], mut='none', faults='mkdir'),
        dict(family='pairs', size=1, level=2, cfg='K0', t0=['empty', 'full', 'dir_d_j'], mut='none', faults='mkdir'),
    ]


def tasks(tier, seed):
    out = []
    for si, sp in enumerate(spaces(tier)):
        n = 64
        for i in range(n):
            out.append({'tier': tier, 'space': si, 'slice': [i, n]})
    return out


def take(acc, world, r):
    hit = False
    for v in r.violations:
        if v['clause'].startswith(MINE):
            v = dict(v)
            v['property'] = PROP
            v['history'] = world.spec()
            acc.violations.append(v)
            hit = True
    return hit


def run_build(world, acc, prog, with_faults, label):
    """One build transition, plus (optionally) the same transition with every
    mkdir of the library failing in turn."""
    if not with_faults:
        r = world.build(prog)
        take(acc, world, r)
        acc.outcome(label, outcome_sig(r))
        return r
    h = world.save()
    r0 = world.build(prog, fault={'k': None})
    take(acc, world, r0)
    acc.outcome(label, outcome_sig(r0))
    log = r0.fault['log']
    for k in range(1, len(log) + 1):
        if log[k - 1] != 'mkdir':
            continue
        world.restore(h)
        r = world.build(prog, fault={'k': k, 'errno': errno.EIO})
        acc.count('mkdir_fault_runs')
        if r.fault['fired']:
            acc.count('mkdir_fault_fired')
        take(acc, world, r)
        acc.outcome(label, 'mkdir@%d' % k, outcome_sig(r))
    world.restore(h)
    world.drop(h)
    return world.build(prog)


def work(ctx, task):
    sp = spaces(task['tier'])[task['space']]
    i, n = task['slice']
    acc = Acc(PROP)
    world = World(ctx.sb, ctx.fb, sp['cfg'])
    full = mutation_alphabet()
    capped = False
    wf = bool(sp.get('faults'))
    if sp.get('family') == 'pairs':
        # target whose ancestor (or itself) was an output file / directory of the previous build of another program,
        # incl. over-long components below such a path
        paths = list(gen.U) + ['d/' + LONG + '/z', 'd/e/' + LONG + '/z', 'a/' + LONG + '/z', 'a/q/' + LONG + '/z']
        first = [{'k': 'bf', 'p': p, 'mode': 'ok', 'catch': True, 'ch': []} for p in gen.U]
        # (second call: succeeds, raises before writing, raises after writing - the half-written target must go)
        second = [{'k': 'bf', 'p': p, 'mode': m, 'catch': True, 'ch': []} for p in paths for m in ('ok', 'rb', 'ra')]
        pi = -1
        for a in first:
            for b in second:
                pi += 1
                if pi % n != i:
                    continue
                acc.count('programs')
                top = a['p'].split('/')[0]
                # between the builds: nothing, or the whole top-level directory of the first output is removed by hand
                for between in ([None, ['rmtree', top]] if '/' in a['p'] else [None]):
                    for t0 in sp['t0']:
                        world.start()
                        for m in gen.T0S[t0]:
                            world.mutate(m)
                        world.build({'level': sp['level'], 'root': [dict(a)]})
                        if world.diverged:
                            continue
                        if between is not None and not world.mutate(between):
                            continue
                        acc.count('histories')
                        run_build(world, acc, {'level': sp['level'], 'root': [dict(b)]}, wf, 'pair')
        return acc.result(world, capped)
    for pi, prog in enumerate(gen.family(sp)):
        if pi % n != i:
            continue
        if ctx.deadline and time.time() > ctx.deadline:
            capped = True
            break
        acc.count('programs')
        if sp['mut'] == 'all':
            muts = [None] + full
        elif sp['mut'] == 'none':
            muts = [None]
        elif sp['mut'] == 'outputs':
            muts = [None] + [[op, p] + (['A'] if op == 'w' else []) for p in sorted(set(gen.bf_paths(prog['root'])))
                             for op in ('del', 'w', 'f2d')]
        else:
            muts = [None] + relevant_mutations(prog, full)
        for t0 in sp['t0']:
            world.start()
            for m in gen.T0S[t0]:
                world.mutate(m)
            acc.count('histories')
            run_build(world, acc, prog, wf, 'first')
            if world.diverged:
                continue
            h = world.save()
            for m in muts:
                world.restore(h)
                if m is not None and not world.mutate(m):
                    continue
                acc.count('histories')
                run_build(world, acc, prog, wf and m is not None, 'rebuild')
                if not acc.samples and m is not None:
                    acc.samples.append({'history': world.spec()})
            world.drop(h)
    return acc.result(world, capped)


def coverage(res, tier):
    c = res.counters
    return {
        'states': len(res.states),
        'transitions': c.get('transitions', 0),
        'traces_validated_against_impl': c.get('transitions', 0),
        'programs': c.get('programs', 0),
        'histories': c.get('histories', 0),
        'mkdir_fault_runs': c.get('mkdir_fault_runs', 0),
        'mkdir_faults_fired': c.get('mkdir_fault_fired', 0),
        'distinct_outcomes': len(res.outcomes),
        'exhaustive': not res.capped,
        'bounds': [dict(family=s.get('family', 'skel'), size=s['size'], level=s['level'], cfg=s['cfg'], t0=s['t0'],
                        mutations=s['mut'], faults=s.get('faults'),
                        restriction={k: (v if k != 'paths' else [p.replace(LONG, '<300xL>') for p in v])
                                     for k, v in s.get('kw', {}).items()}) for s in spaces(tier)],
        'rule': 'target depth 1-3 x prior state of target and ancestors (all initial trees x all mutations after a '
                'preparing build) x mode (ok, raise before/after write, no create, non-JSON) x caught/uncaught, plus '
                'every mkdir of the library failing in turn and paths with an over-long component. Contract monitors '
                'run inside the body and right after the call on the real file system; batteries after a caught '
                'failure and the final tree are compared with the reference model.',
    }
