"""C04 virtual file-system view: every query kind x every path x every program
point, against the reference model's from-scratch view, plus the consistency
laws evaluated on the real answers alone."""
import time

from .. import gen
from ..dsl import KINDS
from ..history import World, viol
from ..universe import mutation_alphabet, U
from .common import Acc, relevant_mutations, outcome_sig

PROP = 'C04'


LONG = 'L' * 300
LONGP = dict(paths=[LONG + '/z', 'd/' + LONG + '/z', 'd/e/' + LONG + '/z', 'd/x'])


def spaces(tier):
    small = dict(paths=['a', 'd', 'd/x', 'd/y', 'd/e/z'], bf_modes=['ok', 'rb', 'ra'], sb_modes=['ok', 'rb'])
    if tier == 'quick':
        return [
            dict(size=1, level=2, cfg='K0', t0=['empty', 'full', 'dir_d_j', 'dir_d_e_z'], mut='rel'),
            dict(size=1, level=2, cfg='K1', t0=['empty', 'dir_d_e'], mut='rel'),
            dict(family='probe', size=1, level=1, cfg='K0', t0=['empty', 'full'], mut='none'),
            dict(size=2, level=2, cfg='K0', t0=['empty', 'dir_d_j'], mut='outputs', kw=small),
            dict(family='chain3', size=3, level=1, cfg='K0', t0=['empty'], mut='none'),
            # directories made before a mkdir that fails (over-long component) must not stay in the view
            dict(size=1, level=2, cfg='K0', t0=['empty', 'dir_d', 'dir_d_e'], mut='none', kw=LONGP),
            # two outputs in one directory two created levels deep (sibling reservations below a new grandparent)
            dict(size=2, level=2, cfg='K0', t0=['empty', 'dir_d'], mut='none',
                 kw=dict(paths=['d/e/z', 'd/e/w', 'd/x'], bf_modes=['ok', 'rb', 'ra'], sb_modes=['ok'])),
        ]
    return [
        dict(size=1, level=2, cfg=c, t0=list(gen.T0S), mut='all') for c in ('K0', 'K1')
    ] + [
        dict(family='probe', size=1, level=1, cfg='K0', t0=list(gen.T0S), mut='rel'),
        dict(family='probe', size=2, level=1, cfg='K0', t0=['empty', 'full'], mut='none'),
        dict(size=2, level=2, cfg='K0', t0=['empty', 'dir_d_j', 'full', 'file_d'], mut='rel'),
        dict(family='chain3', size=3, level=2, cfg='K0', t0=['empty', 'dir_d_j'], mut='outputs'),
        dict(size=2, level=2, cfg='K0', t0=['empty', 'dir_d', 'dir_d_e', 'file_d'], mut='none', kw=dict(LONGP, sb_modes=['ok'])),
    ]


def tasks(tier, seed):
    out = []
    for si, sp in enumerate(spaces(tier)):
        n = 64
        for i in range(n):
            out.append({'tier': tier, 'space': si, 'slice': [i, n]})
    return out


def probe_programs(size, level):
    """A call skeleton with ONE single query inserted at one program point and
    the battery only at the end of the root: 'nobody looked before'."""
    qs = [{'k': 'q', 'kind': k, 'p': p} for k in gen.QKINDS for p in U + ['']]
    if size == 1:
        skels = [{'level': level, 'root': [n]} for n in gen.nodes(idx=1)]
    else:
        skels = [p for p in gen.programs(2, level, paths=['a', 'd', 'd/x', 'd/e/z'], bf_modes=['ok', 'rb', 'ra'],
                                         sb_modes=['ok', 'rb'], catches=(True,)) if len(p['root']) == 1]
    for sk in skels:
        a = sk['root'][0]
        for q in qs:
            # before the call, inside the body (before/after its children), after the call
            yield {'level': level, 'root': [dict(q), a]}
            b = dict(a)
            b['ch'] = [dict(q)] + list(a.get('ch', []))
            yield {'level': level, 'root': [b]}
            if a.get('ch'):
                b = dict(a)
                b['ch'] = list(a['ch']) + [dict(q)]
                yield {'level': level, 'root': [b]}
            if a.get('catch'):
                yield {'level': level, 'root': [a, dict(q)]}


def check_laws(obs, out, nb=None):
    """Consistency laws on every battery found in an observation list."""
    if not isinstance(obs, list):
        return
    if len(obs) == 2 and obs[0] == 'bat' and isinstance(obs[1], list):
        laws(obs[1], out)
        if nb is not None:
            nb[0] += 1
        return
    for x in obs:
        check_laws(x, out, nb)


def laws(bat, out):
    ans = {}
    for e in bat:
        ans[(e[1], e[2])] = e[3]
    paths = sorted({p for (_, p) in ans})
    full = ('get_size', '') in ans

    def bad(law, p, **kw):
        out.append(viol('view.law', {'law': law}, path=p, **kw))
    for p in paths:
        ex, isf, isd = ans[('exists', p)], ans[('is_file', p)], ans[('is_dir', p)]
        if ex != (isf or isd) or (isf and isd):
            bad('exists=is_file|is_dir', p, exists=ex, is_file=isf, is_dir=isd)
        ld = ans[('list_dir', p)]
        want = 'list' if isd else ('!NotADirectoryError' if isf else '!FileNotFoundError')
        if (isinstance(ld, list)) != (want == 'list') or (not isinstance(ld, list) and ld != want):
            bad('list_dir error class', p, list_dir=ld, is_file=isf, is_dir=isd)
        rd = ans[('read', p)]
        if isf:
            if rd.startswith('!'):
                bad('read of a file', p, read=rd)
        elif rd != ('!IsADirectoryError' if isd else '!FileNotFoundError'):
            bad('read error class', p, read=rd, is_dir=isd)
        if full:
            gs = ans[('get_size', p)]
            if ex != (not (isinstance(gs, str) and gs.startswith('!'))):
                bad('get_size vs exists', p, get_size=gs, exists=ex)
        if p and ex:
            par = p.rsplit('/', 1)[0] if '/' in p else ''
            if not ans[('is_dir', par)]:
                bad('parent of existing is dir', p)
            pl = ans[('list_dir', par)]
            if isinstance(pl, list) and p.rsplit('/', 1)[-1] not in pl:
                bad('existing child listed', p, parent_list=pl)
        if isinstance(ld, list):
            for n in ld:
                c = (p + '/' + n) if p else n
                if ('exists', c) in ans and not ans[('exists', c)]:
                    bad('listed child exists', c, parent_list=ld)
        wk = ans[('walk', p)]
        if not isd:
            if wk != []:
                bad('walk of non-dir', p, walk=wk)
        else:
            if not wk or wk[0][0] != p:
                bad('walk head', p, walk=wk)
            else:
                seen = set()
                for d, ds, fs in wk:
                    seen.add(d)
                    l = ans.get(('list_dir', d))
                    if isinstance(l, list) and sorted(ds + fs) != sorted(l):
                        bad('walk entry = list_dir', d, walk=[d, ds, fs], list_dir=l)
                    for n in ds:
                        c = (d + '/' + n) if d else n
                        if ('is_dir', c) in ans and not ans[('is_dir', c)]:
                            bad('walk subdir is_dir', c)
                    for n in fs:
                        c = (d + '/' + n) if d else n
                        if ('is_file', c) in ans and not ans[('is_file', c)]:
                            bad('walk subfile is_file', c)
                    if d != p:
                        par = d.rsplit('/', 1)[0] if '/' in d else ''
                        if par not in seen:
                            bad('walk top-down order', d)


def work(ctx, task):
    sp = spaces(task['tier'])[task['space']]
    i, n = task['slice']
    acc = Acc(PROP)
    world = World(ctx.sb, ctx.fb, sp['cfg'])
    full = mutation_alphabet()
    capped = False
    it = probe_programs(sp['size'], sp['level']) if sp.get('family') == 'probe' else gen.family(sp)
    for pi, prog in enumerate(it):
        if pi % n != i:
            continue
        if ctx.deadline and time.time() > ctx.deadline:
            capped = True
            break
        acc.count('programs')
        if sp['mut'] == 'all':
            muts = [None] + full
        elif sp['mut'] == 'none':
            muts = [None]
        elif sp['mut'] == 'outputs':
            muts = [None] + [[op, p] + (['A'] if op == 'w' else []) for p in sorted(set(gen.bf_paths(prog['root'])))
                             for op in ('del', 'w', 'f2d')]
        else:
            muts = [None] + relevant_mutations(prog, full)
        for t0 in sp['t0']:
            world.start()
            for m in gen.T0S[t0]:
                world.mutate(m)
            r1 = world.build(prog)
            step(acc, world, r1)
            if world.diverged:
                continue
            h = world.save()
            for m in muts:
                world.restore(h)
                if m is not None and not world.mutate(m):
                    continue
                acc.count('histories')
                r2 = world.build(prog)
                step(acc, world, r2)
                acc.outcome(outcome_sig(r1), outcome_sig(r2))
                if not acc.samples and m is not None:
                    acc.samples.append({'history': world.spec(), 'answers_compared': r1.answers + r2.answers})
            world.drop(h)
    return acc.result(world, capped)


def step(acc, world, r):
    acc.count('answers', r.answers)
    if r.real[0] == 'ok':
        lv = []
        nb = [0]
        check_laws(r.real[1], lv, nb)
        acc.count('batteries_law_checked', nb[0])
        for v in lv[:3]:
            v['property'] = PROP
            v['history'] = world.spec()
            acc.violations.append(v)
    for v in r.violations:
        if v['clause'] == 'eqref.answer':
            v = dict(v)
            v['property'] = PROP
            v['history'] = world.spec()
            acc.violations.append(v)


def coverage(res, tier):
    return {
        'states': len(res.states),
        'transitions': res.counters.get('transitions', 0),
        'traces_validated_against_impl': res.counters.get('transitions', 0),
        'programs': res.counters.get('programs', 0),
        'histories': res.counters.get('histories', 0),
        'query_answers_compared': res.counters.get('answers', 0),
        'batteries_law_checked': res.counters.get('batteries_law_checked', 0),
        'distinct_outcomes': len(res.outcomes),
        'exhaustive': not res.capped,
        'bounds': [dict(family=s.get('family', 'skel'), size=s['size'], level=s['level'], cfg=s['cfg'], t0=s['t0'],
                        mutations=s['mut'], restriction={k: (v if k != 'paths' else [x.replace(LONG, '<300xL>') for x in v]) for k, v in s.get('kw', {}).items()}) for s in spaces(tier)],
        'rule': 'level 2 = full battery (7 kinds x 8 paths; 6 kinds inside cacheable functions) before every '
                'statement and at the end of every function; probe family = one single query at one program point, '
                'battery only at the end of the root. History: T0, build P, m, build P. Every answer compared with '
                'the reference model (value or OSError class) and the consistency laws checked on the real answers.',
    }
