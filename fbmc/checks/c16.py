"""C16 cache persistence: return values of any JSON shape, legal file and
directory names, function versions, created directories and failure markers
survive the write/read cycle; the cache file is replaced only after the root
function succeeded and comes back (or is absent) when writing it fails."""
import collections
import errno
import os
import time

from .. import gen
from .. import universe as uni
from .. import valmc
from ..history import World
from ..valmc import trepr, trepr_unordered
from .common import Acc as SweepAcc, outcome_sig

PROP = 'C16'
NAMES = ['A b', '.h', 'ü', '名', '\U0001F600', 'a\nb', 'q"u', 'b\\s', '\udcff', 'L' * 255, ' ', '-', '..x', 'a:b',
         "it's", '%s{}', '\t']


def values(tier):
    V = valmc.Values().upto(2) + [
        {'a': [1, {'b': [None, True, 1.5]}]}, [[[[[1]]]]], {'ü': '名', '\U0001F600': '\udcff'}, 'a\nb"\\',
        2 ** 53 + 1, 2 ** 64, -2 ** 63, 1e308, 5e-324, -0.0, float('inf'), float('-inf'), 0.1, 1e22, 10 ** 30,
        '', ' ', '\x00', '\x7f', [1, [2, [3, {'k': {}}]]], {'': ''}, {'a': {'a': {'a': {}}}},
    ]
    if tier != 'quick':
        V += valmc.Values(atoms=[None, True, 0, 1.0, '', 'a']).exactly(3)
    return valmc.dedupe([valmc.json_roundtrip(v) for v in V])


def tasks(tier, seed):
    n = 16
    out = [{'tier': tier, 'kind': 'values', 'slice': [i, n]} for i in range(n)]
    out += [{'tier': tier, 'kind': 'names', 'slice': [i, 4]} for i in range(4)]
    out += [{'tier': tier, 'kind': 'versions'}, {'tier': tier, 'kind': 'forest'}]
    ns = 64
    for si in range(len(sweep_spaces(tier))):
        out += [{'tier': tier, 'kind': 'sweep', 'space': si, 'slice': [i, ns]} for i in range(ns)]
    return out


def sweep_spaces(tier):
    small = dict(paths=['a', 'd/x', 'd/e/z'], bf_modes=['ok', 'rb', 'ra', 'nc'], sb_modes=['ok', 'rb'])
    if tier == 'quick':
        return [dict(size=2, level=0, cfg='K0', kw=small), dict(size=1, level=1, cfg='K1'),
                dict(family='chain3', size=3, level=0, cfg='K0')]
    return [dict(size=2, level=l, cfg=c) for l in (0, 1) for c in ('K0', 'K1')] + \
           [dict(family='chain3', size=3, level=0, cfg='K0', kw=dict(paths=('a', 'd/x', 'd/y', 'd/e/z')))]


class Acc:
    def __init__(self):
        self.counters = collections.Counter()
        self.violations = []
        self.outcomes = set()
        self.samples = []
        self.states = set()

    def bad(self, clause, facts, **detail):
        if len(self.violations) < 40:
            self.violations.append({'property': PROP, 'engine': 'checks.c16', 'clause': clause, 'facts': facts,
                                    'detail': detail, 'history': detail})

    def result(self):
        return {'counters': dict(self.counters), 'violations': self.violations, 'outcomes': self.outcomes,
                'samples': self.samples[:1], 'states': self.states}


POSITIONS = ['sb', 'bf', 'bf>sb', 'sb>bf', 'sb>sb', 'bf>bf', 'bf>sb>bf', 'sb>fail(bf)>sb']


def make_root(sb, position, value, inv):
    """A root function that returns what the innermost call returned."""
    def leaf_sb(b):
        inv.append('leaf')
        return value

    def leaf_bf(b, p):
        inv.append('leaf')
        with open(p, 'w') as f:
            f.write('x')
        return value

    def root(b):
        parts = position.split('>')
        path_i = [0]

        def go(b, i):
            kind = parts[i]
            last = i == len(parts) - 1
            if kind == 'sb':
                if last:
                    return b.subbuild('leaf', leaf_sb)

                def mid(b2):
                    inv.append('mid%d' % i)
                    return ['wrap', go(b2, i + 1)]
                return b.subbuild('mid%d' % i, mid)
            if kind == 'bf':
                path_i[0] += 1
                p = sb.p('o%d/f%d' % (i, path_i[0]))
                if last:
                    return b.build_file(p, 'leaf', leaf_bf)

                def midf(b2, pp):
                    inv.append('mid%d' % i)
                    with open(pp, 'w') as f:
                        f.write('m')
                    return ['wrap', go(b2, i + 1)]
                return b.build_file(p, 'midf%d' % i, midf)
            if kind == 'fail(bf)':
                p = sb.p('o%d/failing' % i)

                def failing(b2, pp):
                    inv.append('failing')
                    r = go(b2, i + 1)
                    raise ValueError(repr(trepr(r)))
                try:
                    b.build_file(p, 'failing', failing)
                except ValueError as e:
                    return ['caught', str(e)]
            raise AssertionError(kind)
        return go(b, 0)
    return root


def forest(ctx, task):
    """Every record of the forest is found again after the write/read cycle:
    an enclosing record is invalidated (its own input changes) while the
    records nested in it are unchanged - only the enclosing function may run."""
    from ..dsl import fname
    acc = SweepAcc(PROP)
    world = World(ctx.sb, ctx.fb, 'K0')
    q = {'k': 'q', 'kind': 'read', 'p': 'i'}
    outers = [lambda ch: {'k': 'sb', 'mode': 'ok', 'catch': False, 'args': [0], 'ch': ch},
              lambda ch: {'k': 'bf', 'p': 'a', 'mode': 'ok', 'catch': False, 'ch': ch}]
    inners = [lambda ch: {'k': 'sb', 'mode': 'ok', 'catch': False, 'args': [1], 'ch': ch},
              lambda ch: {'k': 'bf', 'p': 'd/x', 'mode': 'ok', 'catch': False, 'ch': ch},
              lambda ch: {'k': 'bf', 'p': 'd/y', 'mode': 'rb', 'catch': True, 'ch': ch},
              lambda ch: {'k': 'sb', 'mode': 'rb', 'catch': True, 'args': [3], 'ch': ch}]
    mids = [None, lambda ch: {'k': 'sb', 'mode': 'ok', 'catch': False, 'args': [2], 'ch': ch},
            lambda ch: {'k': 'bf', 'p': 'd/e/z', 'mode': 'ok', 'catch': False, 'ch': ch}]
    for o in outers:
        for m in mids:
            for inn in inners:
                for qfirst in (True, False):
                    inner = inn([])
                    body = [m([inner])] if m else [inner]
                    outer = o(([q] + body) if qfirst else (body + [q]))
                    prog = {'level': 0, 'root': [outer]}
                    world.start()
                    world.mutate(['w', 'i', 'A'])
                    r1 = world.build(prog)
                    world.mutate(['w', 'i', 'CC'])
                    r2 = world.build(prog)
                    acc.count('programs')
                    acc.count('histories')
                    take(acc, world, r1, ('cache.', 'eqref.'))
                    take(acc, world, r2, ('cache.', 'eqref.'))
                    want = [fname(outer, 0)]
                    if inner.get('mode') == 'rb' and m is None:
                        # a failure is never served to a direct caller: the record of a call
                        # that raised is only replayed as part of an enclosing cached record
                        want.append(fname(inner, 0))
                    got = [x[0] for x in r2.real_inv]
                    if got != want:
                        acc.violations.append({'clause': 'persist.nested_record_lost', 'facts': {}, 'property': PROP,
                                               'history': world.spec(), 'detail': {'invoked': got, 'expected': want}})
                    acc.outcome('forest', got)
    return acc.result(world)


def work(ctx, task):
    if task['kind'] == 'sweep':
        return sweep(ctx, task)
    if task['kind'] == 'forest':
        return forest(ctx, task)
    acc = Acc()
    sb = ctx.sb
    FB = ctx.fb.FileBuilder
    cache = sb.p('c')
    if task['kind'] == 'values':
        V = values(task['tier'])
        i, n = task['slice']
        for vi in range(i, len(V), n):
            v = V[vi]
            for pos in POSITIONS:
                sb.reset()
                inv = []
                r1 = FB.build(cache, 'n', make_root(sb, pos, v, inv))
                n1 = len(inv)
                del inv[:]
                r2 = FB.build(cache, 'n', make_root(sb, pos, v, inv))
                acc.counters['builds'] += 2
                acc.counters['value_cases'] += 1
                expect_inv = ['failing'] * 0
                if trepr_unordered(r1) != trepr_unordered(r2):
                    acc.bad('persist.value', {'position': pos}, value=trepr(v), first=trepr(r1), served=trepr(r2))
                if inv:
                    acc.bad('persist.reexecuted', {'position': pos}, value=trepr(v), invoked=list(inv))
                acc.outcomes.add((pos, trepr(r2)))
        if i == 0:
            acc.samples.append({'values': [trepr(v) for v in V[:40]], 'count': len(V), 'positions': POSITIONS})
            acc.counters['values'] = len(V)
    elif task['kind'] == 'names':
        i, n = task['slice']
        pairs = [(d, f) for d in [None] + NAMES for f in NAMES]
        for pi in range(i, len(pairs), n):
            d, f = pairs[pi]
            rel = f if d is None else d + '/' + f
            if len(os.fsencode(f)) > 255 or (d and len(os.fsencode(d)) > 255):
                continue
            sb.reset()
            p = sb.p(rel)
            inv = []

            def w(b, path, tag):
                inv.append(path)
                with open(path, 'wb') as fh:
                    fh.write(os.fsencode(tag))
                return [path, tag]

            def root(b):
                return b.subbuild('s', lambda b2: b2.build_file(p, 'w', w, rel))
            before = uni.snap(sb.R)
            r1 = FB.build(cache, 'n', root)
            t1 = uni.snap(sb.R, with_ino=True)
            n1 = len(inv)
            r2 = FB.build(cache, 'n', root)
            t2 = uni.snap(sb.R, with_ino=True)
            acc.counters['builds'] += 2
            acc.counters['name_cases'] += 1
            if n1 != 1 or len(inv) != 1 or trepr(r1) != trepr(r2):
                acc.bad('persist.name_rebuilt', {}, name=repr(rel), invocations=len(inv), r1=trepr(r1), r2=trepr(r2))
            if {k: v for k, v in t1.items() if k != 'c'} != {k: v for k, v in t2.items() if k != 'c'}:
                acc.bad('persist.name_tree_changed', {}, name=repr(rel))
            if r1[0] != p or type(r1[0]) is not str:
                acc.bad('persist.name_path', {}, name=repr(rel), got=repr(r1[0]))
            FB.clean(cache, 'n')
            after = uni.snap(sb.R)
            if after != before:
                acc.bad('persist.name_clean_left', {}, name=repr(rel), left=sorted(after)[:4])
            acc.outcomes.add(('name', d is None, f))
        acc.samples.append({'names': [repr(x) for x in NAMES]})
    elif task['kind'] == 'versions':
        V = values(task['tier'])[:60]
        for v in V:
            sb.reset()
            inv = []

            def f(b):
                inv.append(1)
                return 1
            vers = {'f': v, 'unused': [v]}
            FB.build_versioned(cache, 'n', vers, lambda b: b.subbuild('f', f))
            FB.build_versioned(cache, 'n', vers, lambda b: b.subbuild('f', f))
            acc.counters['builds'] += 2
            acc.counters['version_cases'] += 1
            if len(inv) != 1:
                acc.bad('persist.version', {}, version=trepr(v), invocations=len(inv))
            acc.outcomes.add(('version', trepr(v)))
    return acc.result()


def sweep(ctx, task):
    """Failure markers / forest shape / created dirs through the DSL: build,
    build, build with EQ-REF and the cache-file monitors, the cache write
    failing in every way, then clean."""
    sp = sweep_spaces(task['tier'])[task['space']]
    i, n = task['slice']
    acc = SweepAcc(PROP)
    world = World(ctx.sb, ctx.fb, sp['cfg'])
    mine = ('cache.', 'eqref.', 'clean.', 'rollback.')
    for pi, prog in enumerate(gen.family(sp)):
        if pi % n != i:
            continue
        acc.count('programs')
        # the cache write of the very first build failing: no cache file may be left
        world.start()
        r0 = world.build(prog, fault={'k': None})
        log0 = r0.fault['log']
        for k in range(1, len(log0) + 1):
            if log0[k - 1] != 'open':
                continue
            for f in ({'k': k, 'errno': errno.EIO}, {'k': k, 'errno': errno.EIO, 'file': ['write', 0]},
                      {'k': k, 'errno': errno.EIO, 'file': ['write', 15]}, {'k': k, 'errno': errno.EIO, 'file': ['close']}):
                world.start()
                r = world.build(prog, fault=f)
                acc.count('cache_write_faults')
                take(acc, world, r, mine)
                if world.cache_rel in r.after:
                    acc.violations.append({'clause': 'persist.cache_file_left_after_failed_first_write', 'facts': {}, 'property': PROP,
                                           'history': world.spec(), 'detail': {'fault': str(f)}})
                r2 = world.build(prog)
                take(acc, world, r2, mine)
        world.start()
        rs = []
        for step in range(3):
            r = world.build(prog)
            rs.append(r)
            take(acc, world, r, mine)
            if world.diverged:
                break
        if world.diverged:
            continue
        acc.count('histories')
        if rs[1].real_inv != rs[2].real_inv or not _same_val(rs[1], rs[2]):
            v = {'clause': 'persist.not_steady', 'facts': {}, 'property': PROP, 'history': world.spec(),
                 'detail': {'second': rs[1].real_inv, 'third': rs[2].real_inv}}
            acc.violations.append(v)
        # cache write faults on the rebuild
        h = world.save()
        r0 = world.build(prog, fault={'k': None})
        log = r0.fault['log']
        for k in range(1, len(log) + 1):
            if log[k - 1] != 'open':
                continue
            for f in ({'k': k, 'errno': errno.EIO}, {'k': k, 'errno': errno.EIO, 'file': ['write', 0]},
                      {'k': k, 'errno': errno.EIO, 'file': ['write', 15]}, {'k': k, 'errno': errno.EIO, 'file': ['close']}):
                world.restore(h)
                r = world.build(prog, fault=f)
                acc.count('cache_write_faults')
                take(acc, world, r, mine)
                # and the build after the failed write behaves as if it never ran
                r2 = world.build(prog)
                take(acc, world, r2, mine)
                if r2.real_inv != r0.real_inv:
                    acc.violations.append({'clause': 'persist.after_failed_write', 'facts': {}, 'property': PROP,
                                           'history': world.spec(), 'detail': {'got': r2.real_inv, 'want': r0.real_inv}})
        world.restore(h)
        world.drop(h)
        c = world.clean()
        take(acc, world, c, mine)
        acc.outcome([outcome_sig(r) for r in rs])
        if not acc.samples:
            acc.samples.append({'history': world.spec()})
    return acc.result(world)


def _same_val(a, b):
    from ..dsl import same
    return a.real[0] == b.real[0] and (a.real[0] != 'ok' or same(a.real[1], b.real[1]))


def take(acc, world, r, mine):
    for v in r.violations:
        if v['clause'].startswith(mine):
            v = dict(v)
            v['property'] = PROP
            v['history'] = world.spec()
            acc.violations.append(v)


def coverage(res, tier):
    c = res.counters
    return {
        'states': len(res.states) + c.get('values', 0),
        'transitions': c.get('builds', 0) + c.get('transitions', 0),
        'traces_validated_against_impl': c.get('builds', 0) + c.get('transitions', 0),
        'return_values': c.get('values', 0),
        'value_cases': c.get('value_cases', 0),
        'name_cases': c.get('name_cases', 0),
        'version_cases': c.get('version_cases', 0),
        'sweep_programs': c.get('programs', 0),
        'cache_write_fault_runs': c.get('cache_write_faults', 0),
        'distinct_outcomes': len(res.outcomes),
        'exhaustive': not res.capped,
        'rule': 'return values: every value of the set (all values with <=2 constructor nodes after JSON round trip '
                'plus listed extremes) returned at 8 nesting positions of the operation forest, build twice: the '
                'served value is type-exactly the first value and nothing is re-executed. names: every (directory '
                'name, file name) pair of a 17-name legal-name grammar as output path: build, build (no rebuild, '
                'same inode), clean (everything gone). versions: each value as a function version, build twice. '
                'sweep: every program (<=2 nodes, all failure modes; 3-chains) built three times with EQ-REF, '
                'steady-state invocation logs, structural cache invariants (no duplicate record, cache file '
                'untouched until the root function returned), every cache-write fault, then clean.',
    }


def replay(v):
    print('recorded: clause=%s facts=%s detail=%s' % (v['clause'], v['facts'], v['detail']))
    return 1
