"""Exhaustive program enumeration by size over call skeletons
(DESIGN.md section 3.2) and initial trees."""
import itertools

from .universe import U

BF_MODES = ['ok', 'rb', 'ra', 'nc', 'nj']
SB_MODES = ['ok', 'rb', 'nj']


def nodes(paths=U, bf_modes=BF_MODES, sb_modes=SB_MODES, catches=(True, False),
          cmps=('METADATA',), idx=0):
    """All call-node labels.  Subbuild nodes carry args=[idx] so that two
    subbuilds in one program have different keys unless a check wants a
    duplicate."""
    for p in paths:
        for m in bf_modes:
            for c in catches:
                for cmp in cmps:
                    n = {'k': 'bf', 'p': p, 'mode': m, 'catch': c, 'ch': []}
                    if cmp != 'METADATA':
                        n['cmp'] = cmp
                    yield n
    for m in sb_modes:
        for c in catches:
            yield {'k': 'sb', 'mode': m, 'catch': c, 'args': [idx], 'ch': []}


def _clone(n, **kw):
    m = dict(n)
    m['ch'] = [dict(c) for c in n.get('ch', [])]
    m.update(kw)
    return m


def bf_paths(stmts):
    out = []
    for s in stmts:
        if s['k'] == 'bf':
            out.append(s['p'])
        if s['k'] in ('bf', 'sb'):
            out += bf_paths(s.get('ch', []))
        elif s['k'] == 'if':
            out += bf_paths(s.get('then', []))
    return out


def obligation_ok(root):
    """Within one build no output path may be a proper ancestor of another."""
    ps = set(bf_paths(root))
    return not any(a != b and b.startswith(a + '/') for a in ps for b in ps)


def programs(size, level, **kw):
    """All programs with exactly `size` call nodes (ordered forests)."""
    wf = kw.pop('wfirst_variants', True)
    ob = obligation_ok if kw.pop('oblig', True) else (lambda root: True)
    if size == 1:
        for a in nodes(idx=1, **kw):
            yield {'level': level, 'root': [a]}
    elif size == 2:
        A = list(nodes(idx=1, **kw))
        B = list(nodes(idx=2, **kw))
        for a in A:
            for b in B:
                root = [a, b]
                if ob(root):
                    yield {'level': level, 'root': [_clone(a), _clone(b)]}
                root = [_clone(a, ch=[b])]
                if ob(root):
                    yield {'level': level, 'root': root}
                    if wf and a['k'] == 'bf' and a['mode'] in ('ok', 'ra', 'nj'):
                        yield {'level': level, 'root': [_clone(a, ch=[b], wfirst=True)]}
    elif size == 3:
        A = list(nodes(idx=1, **kw))
        B = list(nodes(idx=2, **kw))
        C = list(nodes(idx=3, **kw))
        for a in A:
            for b in B:
                for c in C:
                    for root in ([a, b, c], [_clone(a, ch=[b]), c], [a, _clone(b, ch=[c])],
                                 [_clone(a, ch=[b, c])], [_clone(a, ch=[_clone(b, ch=[c])])]):
                        if ob(root):
                            yield {'level': level, 'root': [_clone(x) for x in root]}
    else:
        raise ValueError(size)


QKINDS = ['exists', 'is_file', 'is_dir', 'list_dir', 'walk', 'walkb', 'get_size', 'read', 'readh']


def observer_hosts():
    """Call skeletons with a hole '?' for one single query: the function that
    holds the query observes nothing else, so nothing masks a stale answer."""
    q = '?'
    sb = lambda ch, **kw: dict({'k': 'sb', 'mode': 'ok', 'catch': True, 'args': [1], 'ch': ch}, **kw)
    bf = lambda p, ch, **kw: dict({'k': 'bf', 'p': p, 'mode': 'ok', 'catch': True, 'ch': ch}, **kw)
    return [
        [sb([q])],
        [bf('a', [q])],
        [bf('d/y', [q])],
        [sb([bf('d/y', [q])])],
        [sb([bf('d/y', [q], mode='rb')])],
        [sb([q, bf('d/y', [])])],
        [sb([bf('d/y', []), q])],
        [sb([bf('d/e/z', [], mode='ra'), q])],
        [bf('d/x', [sb([q])], wfirst=True)],
        # a separately cached operation observes what another cached operation produced
        [bf('a', [bf('d/y', [])]), sb([q])],
        [sb([bf('d/y', [])]), sb([q], args=[2])],
        [bf('a', [bf('d/e/z', [])]), bf('d/x', [q])],
        [sb([bf('d/e/z', [], mode='rb')]), sb([q], args=[2])],
        # across a nested-subbuild boundary, both directions
        [sb([sb([bf('d/y', [])], args=[2]), q])],
        [sb([bf('d/y', []), sb([q], args=[2])])],
        [bf('a', [sb([bf('d/e/z', [])], args=[2]), q])],
        # an earlier record observed the directory before it existed
        [sb([{'k': 'q', 'kind': 'is_dir', 'p': 'd'}], args=[3]), sb([bf('d/y', []), q])],
    ]


def _fill(stmts, q):
    out = []
    for s in stmts:
        if s == '?':
            out.append(dict(q))
        else:
            s = dict(s)
            if 'ch' in s:
                s['ch'] = _fill(s['ch'], q)
            out.append(s)
    return out


def observer_programs(level=0, hosts=None, kinds=None, paths=None):
    hs = observer_hosts()
    for hi, h in enumerate(hs):
        if hosts is not None and hi not in hosts:
            continue
        for kind in (kinds or QKINDS):
            for p in (paths or (U + [''])):
                yield {'level': level, 'root': _fill(h, {'k': 'q', 'kind': kind, 'p': p})}


def if_programs(level=0):
    """Data-dependent control flow: a call that happens only if a query answers
    a particular value; the condition flips under external mutations."""
    sbn = lambda ch, i=1, **kw: dict({'k': 'sb', 'mode': 'ok', 'catch': True, 'args': [i], 'ch': ch}, **kw)
    bfn = lambda p, ch=(), **kw: dict({'k': 'bf', 'p': p, 'mode': 'ok', 'catch': True, 'ch': list(ch)}, **kw)
    conds = [({'k': 'q', 'kind': 'exists', 'p': 'i'}, True), ({'k': 'q', 'kind': 'exists', 'p': 'i'}, False),
             ({'k': 'q', 'kind': 'is_dir', 'p': 'd'}, True), ({'k': 'q', 'kind': 'is_dir', 'p': 'd'}, False),
             ({'k': 'q', 'kind': 'list_dir', 'p': 'd'}, '!FileNotFoundError'), ({'k': 'q', 'kind': 'list_dir', 'p': 'd'}, ['j']),
             ({'k': 'q', 'kind': 'read', 'p': 'i'}, 'AAAA'), ({'k': 'q', 'kind': 'is_file', 'p': 'a'}, True)]
    thens = [[bfn('d/x')], [bfn('d/y', mode='rb')], [sbn([bfn('d/e/z')], 2)], [bfn('a')], [bfn('d')]]
    hosts = [lambda s: [s], lambda s: [sbn([s])], lambda s: [bfn('a', [s])] , lambda s: [sbn([s]), bfn('d/y')]]
    for (q, eq) in conds:
        for th in thens:
            for hi, h in enumerate(hosts):
                stmt = {'k': 'if', 'q': dict(q), 'eq': eq, 'then': [dict(t) for t in th]}
                root = h(stmt)
                if obligation_ok(root) and len(set(bf_paths(root))) == len(bf_paths(root)):
                    yield {'level': level, 'root': root}


def chain_programs(level=0, paths=('a', 'd/x', 'd/e/z'), modes=('ok', 'rb')):
    """All 3-node programs (5 forest shapes) over a small label set."""
    yield from programs(3, level, paths=list(paths), bf_modes=list(modes), sb_modes=list(modes), catches=(True,))


def preobs_programs(level=0):
    """A call observes a directory *before* a nested call (two levels further down, below a build_file
    that fails afterwards or not) creates it: sb{q; bf F{bf G}} and bf H{q; bf F{bf G}}."""
    for kind, p in (('is_dir', 'd'), ('exists', 'd'), ('list_dir', ''), ('walk', ''), ('is_dir', 'd/e'), ('list_dir', 'd')):
        for fmode in ('ok', 'rb', 'ra'):
            for g in ('d/x', 'd/e/z'):
                for gmode in ('ok', 'rb'):
                    inner = {'k': 'bf', 'p': 'a', 'mode': fmode, 'catch': True,
                             'ch': [{'k': 'bf', 'p': g, 'mode': gmode, 'catch': True, 'ch': []}]}
                    obs = {'k': 'q', 'kind': kind, 'p': p}
                    yield {'level': level, 'root': [{'k': 'sb', 'mode': 'ok', 'catch': True, 'args': [1], 'ch': [obs, inner]}]}
                    yield {'level': level, 'root': [{'k': 'bf', 'p': 'q/h', 'mode': 'ok', 'catch': True, 'ch': [obs, inner]}]}
                    yield {'level': level, 'root': [{'k': 'sb', 'mode': 'ok', 'catch': True, 'args': [1], 'ch': [inner, obs]}]}


def family(sp):
    f = sp.get('family', 'skel')
    if f == 'skel':
        return programs(sp['size'], sp['level'], **sp.get('kw', {}))
    if f == 'observer':
        return observer_programs(sp['level'], **sp.get('kw', {}))
    if f == 'if':
        return if_programs(sp['level'])
    if f == 'preobs':
        return preobs_programs(sp['level'])
    if f == 'chain3':
        return chain_programs(sp['level'], **sp.get('kw', {}))
    if f == 'args':
        return args_programs(sp['size'], sp['level'], **sp.get('kw', {}))
    raise ValueError(f)


# argument shapes whose stored form (the cache file sorts keys, JSON has one number spelling per value, nested
# containers) differs textually from the form a fresh call passes, although both are equal as JSON values
ARG_SHAPES = [
    ([], {'b': 1, 'a': 2}),
    ([{'z': 1, 'y': [1, 2], 'x': {'q': None, 'p': True}}], {}),
    ([1.0, 2, 'u'], {'k': [1.0, {'n': 0, 'm': -1}]}),
    ([[], {}, '', 0, False, None], {'z': '', 'a': []}),
]


def args_programs(size, level, **kw):
    """every skeleton of the size, every bf/sb node carrying the same non-trivial args/kwargs shape"""
    import copy
    for prog in programs(size, level, **kw):
        if not any(True for _ in call_nodes_of(prog['root'])):
            continue
        for a, k in ARG_SHAPES:
            q = copy.deepcopy(prog)
            for n in call_nodes_of(q['root']):
                n['args'] = copy.deepcopy(a)
                n['kwargs'] = copy.deepcopy(k)
            yield q


def call_nodes_of(stmts):
    for s in stmts:
        if s['k'] in ('bf', 'sb'):
            yield s
            yield from call_nodes_of(s.get('ch', []))


def prog_paths(prog):
    """Paths a program mentions, their ancestors, and the input file."""
    ps = set(bf_paths(prog['root']))

    def qpaths(stmts):
        for s in stmts:
            if s['k'] == 'q':
                ps.add(s['p'])
            elif s['k'] == 'if':
                ps.add(s['q']['p'])
                qpaths(s.get('then', []))
            elif s['k'] in ('bf', 'sb'):
                qpaths(s.get('ch', []))
    qpaths(prog['root'])
    for p in list(ps):
        while '/' in p:
            p = p.rsplit('/', 1)[0]
            ps.add(p)
    ps.add('i')
    return ps


# Initial trees, as mutation lists applied to an empty sandbox.
T0S = {
    'empty': [],
    'file_a': [['w', 'a', 'A']],
    'file_i': [['w', 'i', 'A']],
    'file_d': [['w', 'd', 'A']],
    'dir_d': [['mkdir', 'd']],
    'dir_d_x': [['mkdir', 'd'], ['w', 'd/x', 'A']],
    'dir_d_j': [['mkdir', 'd'], ['w', 'd/j', 'A']],
    'dir_d_e': [['mkdir', 'd'], ['mkdir', 'd/e']],
    'file_d_e': [['mkdir', 'd'], ['w', 'd/e', 'A']],
    'dir_d_e_z': [['mkdir', 'd'], ['mkdir', 'd/e'], ['w', 'd/e/z', 'A']],
    'full': [['w', 'a', 'A'], ['w', 'i', 'A'], ['mkdir', 'd'], ['w', 'd/x', 'A'],
             ['w', 'd/y', 'A'], ['mkdir', 'd/e'], ['w', 'd/e/z', 'A']],
}
