"""E4: exhaustive value-space enumeration (JSON constructors over a colliding
atom set) and an independent canonical form of JSON equality."""
import itertools
import json
import math
from fractions import Fraction

ATOMS = [None, False, True, 0, 1, 2, 1.0, -0.0, '', '0', 'a', 2 ** 63, float('inf')]
EXTRA_ATOMS = [2 ** 53 + 1, float(2 ** 53), 0.1, -1, 1e400 if False else float('-inf'), '\U0001F600', '\udcff', '\ud83d\ude00', 'true', 'null', '1']
# dict keys: strings and the non-string keys json.dumps stringifies (some
# collide after stringification: 0 / '0', None / 'null', True / 'true')
KEYS = ['', '0', 'a', 'true', 'null', '1', 0, 1, 1.5, None, True, False]


def trepr(v):
    """Type-exact repr: distinguishes 1 / 1.0 / True, list / tuple, -0.0 / 0.0,
    and dict insertion order."""
    t = type(v)
    if t is dict:
        return '{' + ','.join(trepr(k) + ':' + trepr(x) for k, x in v.items()) + '}'
    if t is list:
        return '[' + ','.join(trepr(x) for x in v) + ']'
    if t is tuple:
        return '(' + ','.join(trepr(x) for x in v) + ')'
    return t.__name__ + ':' + repr(v)


def trepr_unordered(v):
    """Type-exact repr that ignores dict key order (JSON objects are unordered;
    the cache file is written with sorted keys)."""
    t = type(v)
    if t is dict:
        return '{' + ','.join(sorted(trepr(k) + ':' + trepr_unordered(x) for k, x in v.items())) + '}'
    if t is list:
        return '[' + ','.join(trepr_unordered(x) for x in v) + ']'
    if t is tuple:
        return '(' + ','.join(trepr_unordered(x) for x in v) + ')'
    return trepr(v)


def canonform(v):
    """Independent canonical form of JSON equality: tagged tree, numbers as
    exact fractions, dicts as frozensets, lists == tuples, bool != number."""
    t = type(v)
    if v is None:
        return ('null',)
    if t is bool:
        return ('bool', v)
    if t is int:
        return ('num', Fraction(v))
    if t is float:
        if math.isinf(v):
            return ('num', 'inf' if v > 0 else '-inf')
        if math.isnan(v):
            return ('nan',)
        return ('num', Fraction(v))
    if t is str:
        return ('str', v)
    if t in (list, tuple):
        return ('list', tuple(canonform(x) for x in v))
    if t is dict:
        return ('dict', frozenset((k, canonform(x)) for k, x in v.items()))
    raise TypeError(t)


def compositions(n, k):
    """ordered k-tuples of positive ints summing to n"""
    if k == 0:
        if n == 0:
            yield ()
        return
    for first in range(1, n - k + 2):
        for rest in compositions(n - first, k - 1):
            yield (first,) + rest


class Values:
    """All values with exactly n constructor nodes, memoised."""

    def __init__(self, atoms=ATOMS, keys=KEYS, max_children=3, max_keys=2):
        self.atoms = atoms
        self.keys = keys
        self.max_children = max_children
        self.max_keys = max_keys
        self.memo = {}

    def exactly(self, n):
        if n in self.memo:
            return self.memo[n]
        out = []
        if n == 1:
            out = list(self.atoms) + [[], (), {}]
        else:
            for k in range(1, min(self.max_children, n - 1) + 1):
                for comp in compositions(n - 1, k):
                    pools = [self.exactly(c) for c in comp]
                    for kids in itertools.product(*pools):
                        out.append(list(kids))
                        out.append(tuple(kids))
            for k in range(1, min(self.max_keys, n - 1) + 1):
                for comp in compositions(n - 1, k):
                    pools = [self.exactly(c) for c in comp]
                    for ks in itertools.permutations(self.keys, k):
                        for kids in itertools.product(*pools):
                            d = {}
                            for key, kid in zip(ks, kids):
                                d[key] = kid
                            out.append(d)
        self.memo[n] = out
        return out

    def upto(self, n):
        out = []
        for i in range(1, n + 1):
            out += self.exactly(i)
        return out


def dedupe(vals):
    seen = set()
    out = []
    for v in vals:
        r = trepr(v)
        if r not in seen:
            seen.add(r)
            out.append(v)
    return out


def tupleize(v):
    t = type(v)
    if t is list:
        return tuple(tupleize(x) for x in v)
    if t is dict:
        return {k: tupleize(x) for k, x in v.items()}
    return v


def json_roundtrip(v):
    return json.loads(json.dumps(v))


def shares_mutable(a, b):
    """True iff some list/dict object is reachable from both a and b."""
    ids = set()

    def walk(v, collect):
        if isinstance(v, (list, dict, tuple)):
            if isinstance(v, (list, dict)):
                if collect:
                    ids.add(id(v))
                elif id(v) in ids:
                    return True
            it = v.values() if isinstance(v, dict) else v
            for x in it:
                if walk(x, collect):
                    return True
        return False
    walk(a, True)
    return walk(b, False)
