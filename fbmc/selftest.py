"""Setup-time self test: the reference model's file-system half against the OS.
For every tree over U up to 4 nodes and every query kind x path, Ref's answer
must equal the answer of the corresponding os call on the materialised tree."""
import itertools
import os
import shutil
import sys

from . import universe as uni
from .refmodel import RefState, RefRun
from .dsl import KINDS


def os_answer(sb, kind, rel):
    p = sb.p(rel)
    if kind == 'exists':
        return os.path.exists(p)
    if kind == 'is_file':
        return os.path.isfile(p)
    if kind == 'is_dir':
        return os.path.isdir(p)
    try:
        if kind == 'list_dir':
            return sorted(os.listdir(p))
        if kind == 'get_size':
            n = os.path.getsize(p)
            return 'DIRSIZE' if os.path.isdir(p) else n
        if kind == 'read':
            with open(p, 'rb') as f:
                return f.read().decode('latin1')
        if kind == 'walk':
            return [[sb.rel(d), sorted(ds), sorted(fs)] for d, ds, fs in _walk(p)]
    except NotADirectoryError:
        # a path below a regular file "does not exist" (documented FileNotFoundError),
        # except list_dir of a regular file itself
        if kind == 'list_dir' and os.path.isfile(p):
            return '!NotADirectoryError'
        return '!FileNotFoundError'
    except OSError as e:
        return '!' + type(e).__name__


def _walk(p):
    if not os.path.isdir(p):
        return []
    out = []
    for d, ds, fs in os.walk(p):
        ds.sort()
        out.append((d, list(ds), fs))
    return out


def main():
    sb = uni.Sandbox('selftest')
    n = 0
    try:
        entries = []
        for u in uni.U:
            entries.append((u, 'f'))
            entries.append((u, 'd'))
        for k in range(0, 5):
            for combo in itertools.combinations(entries, k):
                paths = [c[0] for c in combo]
                if len(set(paths)) != len(paths):
                    continue
                kinds = dict(combo)
                ok = True
                for p in paths:
                    par = p.rsplit('/', 1)[0] if '/' in p else None
                    if par is not None and kinds.get(par) != 'd':
                        ok = False
                if not ok:
                    continue
                sb.reset()
                st = RefState(sb.R, sb.p('c'))
                for p in sorted(paths):
                    if kinds[p] == 'd':
                        os.mkdir(sb.p(p))
                        st.fs.mkdir(sb.p(p))
                    else:
                        with open(sb.p(p), 'wb') as f:
                            f.write(b'AB')
                        st.fs.write(sb.p(p), b'AB')
                run = RefRun(st)
                for kind in KINDS:
                    for rel in uni.U + ['']:
                        a = os_answer(sb, kind, rel)
                        b = run.query(kind, sb.p(rel))
                        if kind == 'walk':
                            b = [[sb.rel(d), ds, fs] for d, ds, fs in b]
                        n += 1
                        if a != b:
                            print('SELFTEST FAILED tree=%s %s(%s): os=%r ref=%r' % (combo, kind, rel, a, b))
                            return 1
        print('selftest: reference-model file-system half agrees with the OS on %d (tree, query) pairs' % n)
        return 0
    finally:
        sb.destroy()
        shutil.rmtree(os.path.dirname(sb.base), ignore_errors=True)


if __name__ == '__main__':
    sys.exit(main())
