"""Explicit-state breadth-first search over histories (E1, BFS mode).

A state is the sandbox tree plus the cache file (and the reference state that
goes with it); it is identified by the canonical digest of history.canon_state
(paths, kinds, bytes, mtime *ranks*, decoded cache JSON).  A transition is one
real API call or external mutation from a fixed menu: build(P) for a menu of
programs that share and swap paths, the same builds crashing at a program
point, every mutation of a reduced alphabet, clean.  Every transition is
executed by the implementation and the reference model with all oracles of
history.World; states are de-duplicated on the digest; the search is
level-synchronous and distributed over the pool through a shared state store
on the tmpfs.
"""
import os
import pickle
import shutil
import time

from . import universe as uni
from .history import World, canon_state
from .checks.common import props_of


def bf(p, mode='ok', catch=True, ch=(), **kw):
    return dict({'k': 'bf', 'p': p, 'mode': mode, 'catch': catch, 'ch': list(ch)}, **kw)


def sb(ch=(), mode='ok', catch=True, args=(1,)):
    return {'k': 'sb', 'mode': mode, 'catch': catch, 'ch': list(ch), 'args': list(args)}


def q(kind, p):
    return {'k': 'q', 'kind': kind, 'p': p}


def menu():
    P = [
        {'level': 0, 'root': [bf('a')]},
        {'level': 0, 'root': [bf('d/x')]},
        {'level': 0, 'root': [bf('d')]},                                  # file where a directory was
        {'level': 0, 'root': [bf('d/e/z')]},
        {'level': 0, 'root': [bf('d/e')]},                                # file <-> directory swap one level down
        {'level': 0, 'root': [sb([bf('d/x'), bf('d/y', 'rb')])]},
        {'level': 0, 'root': [bf('a', ch=[bf('d/x')])]},
        {'level': 0, 'root': [sb([q('list_dir', 'd'), bf('d/y')])]},
        {'level': 0, 'root': [sb([q('read', 'i')]), bf('d/e/z', ch=[q('walk', 'd')])]},
        {'level': 0, 'root': [bf('d/x', 'ra', catch=False)]},             # the build fails: roll back
        {'level': 0, 'root': [bf('a'), bf('d/y'), {'k': 'raise'}]},       # fails after two successes
        {'level': 1, 'root': []},                                         # only observes; drops every previous output
        {'level': 1, 'root': [sb([bf('d/e/z', 'ra'), q('is_dir', 'd/e')])]},
    ]
    return P


def mutations():
    ms = []
    for p in ('a', 'i', 'd', 'd/x', 'd/e'):
        ms += [['w', p, 'A'], ['del', p], ['mkdir', p], ['rmtree', p], ['rmdir', p], ['f2d', p], ['d2f', p, 'B']]
    ms += [['w', 'd/j', 'A'], ['w', 'd/e/j', 'A'], ['touch', 'd/x'], ['del', 'c']]
    return ms


def actions():
    A = []
    for i, p in enumerate(menu()):
        A.append(['build', i, None])
    for i in (0, 3, 5, 6, 8):
        for k in ('first', 'last'):
            A.append(['build', i, k])
    for m in mutations():
        A.append(['mut', m])
    A.append(['clean'])
    return A


# ---------------------------------------------------------------------------
# state store
# ---------------------------------------------------------------------------

def export_state(world, store, digest, depth):
    d = os.path.join(store, digest)
    tmp = d + '.tmp%d' % os.getpid()
    if os.path.exists(d):
        return False
    shutil.copytree(world.sb.R, os.path.join(tmp, 'R'), symlinks=True)
    with open(os.path.join(tmp, 'meta.pkl'), 'wb') as f:
        pickle.dump({'t': {world.sb.rel(p): v for p, v in world.ref.fs.t.items()},
                     'rec': None if world.ref.rec is None else {
                         'outputs': {world.sb.rel(p) for p in world.ref.rec['outputs']},
                         'created': {world.sb.rel(p) for p in world.ref.rec['created']},
                         'versions': world.ref.rec['versions']},
                     'steps': world.steps, 'clock': world.sb.clock, 'depth': depth, 'R': world.sb.R,
                     'cache_rel': world.cache_rel}, f)
    try:
        os.rename(tmp, d)
        return True
    except OSError:
        shutil.rmtree(tmp, ignore_errors=True)
        return False


def import_state(world, store, digest):
    d = os.path.join(store, digest)
    with open(os.path.join(d, 'meta.pkl'), 'rb') as f:
        meta = pickle.load(f)
    sb = world.sb
    world.start()
    shutil.rmtree(sb.R)
    shutil.copytree(os.path.join(d, 'R'), sb.R, symlinks=True)
    os.chdir(sb.R)
    # the cache file records absolute paths: re-home it into this sandbox
    cp = os.path.join(sb.R, meta['cache_rel'])
    if meta['R'] != sb.R and os.path.isfile(cp):
        import gzip
        with open(cp, 'rb') as f:
            raw = f.read()
        try:
            txt = gzip.decompress(raw).decode()
            with gzip.open(cp, 'wt') as f:
                f.write(txt.replace(meta['R'], sb.R))
        except (OSError, EOFError, ValueError):
            pass
    sb.clock = meta['clock']
    world.ref.fs.t = {sb.p(r) if r else sb.R: v for r, v in meta['t'].items()}
    if meta['rec'] is not None:
        world.ref.rec = {'outputs': {sb.p(p) for p in meta['rec']['outputs']},
                         'created': {sb.p(p) for p in meta['rec']['created']},
                         'versions': meta['rec']['versions']}
    world.steps = list(meta['steps'])
    world.last_commit = None      # the effectiveness oracle is not carried across merged states
    return meta


def work(ctx, task):
    """Expand a batch of frontier states by every action."""
    store = task['store']
    clauses = task['clauses']
    prop = task['prop']
    world = World(ctx.sb, ctx.fb, 'K0')
    world.twin_on = any(c.startswith('twin.') for c in clauses)     # model-free from-scratch twin on every build transition
    P = menu()
    A = actions()
    out_states = []
    violations = []
    counters = {'transitions': 0, 'expanded': 0, 'not_applicable': 0, 'violating_transitions': 0}
    outcomes = set()
    capped = False
    for digest in task['states']:
        if ctx.deadline and time.time() > ctx.deadline:
            capped = True
            break
        meta = import_state(world, store, digest)
        h = world.save()
        counters['expanded'] += 1
        for a in A:
            world.restore(h)
            world.last_commit = None
            world.twin_on = any(c.startswith('twin.') for c in clauses)
            if a[0] == 'mut':
                if not world.mutate(a[1]):
                    counters['not_applicable'] += 1
                    continue
                res = None
            elif a[0] == 'clean':
                res = world.clean()
            else:
                prog = P[a[1]]
                crash = None
                if a[2] is not None:
                    # count the points with a dry run on a copy
                    r0 = world.build(prog)
                    n = r0.npoints
                    world.restore(h)
                    world.last_commit = None
                    crash = 1 if a[2] == 'first' else max(1, n)
                res = world.build(prog, crash_at=crash)
            counters['transitions'] += 1
            bad = False
            if res is not None:
                for v in res.violations:
                    if any(v['clause'].startswith(c) for c in clauses):
                        v = dict(v)
                        v['property'] = prop
                        v['history'] = world.spec()
                        violations.append(v)
                        bad = True
            if bad or world.diverged:
                counters['violating_transitions'] += 1
                continue
            snap = uni.snap(world.sb.R)
            dg = canon_state(snap, world.cache_rel, world.sb.R).hex()
            outcomes.add(dg)
            if export_state(world, store, dg, meta['depth'] + 1):
                out_states.append(dg)
        world.drop(h)
    return {'counters': counters, 'violations': violations[:100], 'outcomes': set(), 'samples': [],
            'states': set(), 'capped': capped, 'new_states': out_states}


def run(prop, clauses, depth, deadline, res, t0s=('empty', 'full', 'dir_d_j')):
    """Level-synchronous BFS; merges into the engine Result `res` and returns a
    coverage dict."""
    from . import engine
    from . import gen
    store = os.path.join(uni.SCRATCH_BASE, 'fbmc.store.%07d' % os.getpid())
    shutil.rmtree(store, ignore_errors=True)
    os.makedirs(store)
    fb = uni.import_library()
    os.environ['FBMC_RUNDIR'] = store + '.seed'
    sbx = uni.Sandbox('b')
    world = World(sbx, fb, 'K0')
    frontier = []
    try:
        for t0 in t0s:
            world.start()
            for m in gen.T0S[t0]:
                world.mutate(m)
            dg = canon_state(uni.snap(sbx.R), world.cache_rel, sbx.R).hex()
            if export_state(world, store, dg, 0):
                frontier.append(dg)
    finally:
        sbx.destroy()
        shutil.rmtree(store + '.seed', ignore_errors=True)
        os.environ.pop('FBMC_RUNDIR', None)
    seen = set(frontier)
    levels = []
    complete_depth = 0
    total_trans = 0
    try:
        for d in range(1, depth + 1):
            if not frontier or (deadline and time.time() > deadline):
                break
            batch = max(1, min(40, len(frontier) // (engine.NPROC * 2) or 1))
            tasks = [{'store': store, 'clauses': list(clauses), 'prop': prop, 'states': frontier[i:i + batch]}
                     for i in range(0, len(frontier), batch)]
            new = []

            class Collector(engine.Result):
                pass
            part_res = engine.Result()
            orig_merge = part_res.merge

            def merge(part, _orig=orig_merge):
                if part and 'new_states' in part:
                    new.extend(part['new_states'])
                _orig(part)
            part_res.merge = merge
            engine.run_pool('fbmc.bfs', tasks, deadline, into=part_res)
            # fold into the caller's result
            for k, v in part_res.counters.items():
                res.counters['bfs_' + k] = res.counters.get('bfs_' + k, 0) + v
            for key, v in part_res.violations.items():
                if key not in res.violations:
                    res.violations[key] = v
            res.harness_errors += part_res.harness_errors
            nxt = [s for s in dict.fromkeys(new) if s not in seen]
            seen.update(nxt)
            levels.append({'depth': d, 'expanded': part_res.counters.get('expanded', 0), 'new_states': len(nxt),
                           'transitions': part_res.counters.get('transitions', 0), 'complete': not part_res.capped})
            if part_res.capped:
                res.capped = True
                break
            complete_depth = d
            frontier = nxt
    finally:
        shutil.rmtree(store, ignore_errors=True)
    res.counters['bfs_states'] = len(seen)
    return {'bfs_distinct_states': len(seen), 'bfs_depth_completed': complete_depth, 'bfs_levels': levels,
            'bfs_menu': {'programs': len(menu()), 'mutations': len(mutations()), 'actions': len(actions())},
            'bfs_frontier_left': len(frontier) if complete_depth < depth else 0}
