"""The two implementations of the Api surface used by dsl.Interp: one on the
real FileBuilder, one on the reference model."""
import os
import posixpath as pp

from . import faults
from .dsl import KINDS, KINDS_CACHED, jcopy
from .refmodel import RefRun, jround_checked


def mask_answer(kind, rel, ans, mask):
    """Latitude (a): directories that exist only to hold the cache file are
    not observed - drop them from listings of the sandbox root."""
    if not mask or isinstance(ans, str):
        return ans
    if kind == 'list_dir' and rel == '':
        return [n for n in ans if n not in mask]
    if kind in ('walk', 'walkb') and rel == '':
        out = []
        for d, ds, fs in ans:
            if d.split('/', 1)[0] in mask:
                continue
            if d == '':
                ds = [n for n in ds if n not in mask]
            out.append([d, ds, fs])
        return out
    return ans


def _cmp_enum(fbmod, name):
    return fbmod.FileComparison[name]


class RealApi:
    def __init__(self, fbmod, sb, builder, target=None, log=None, root=False):
        self._root = root
        self.fb = fbmod
        self.sb = sb
        self.b = builder
        self.target = target
        self.log = log if log is not None else {'bf_paths': [], 'answers': 0}

    def target_rel(self):
        return None if self.target is None else self.sb.rel(self.target)

    def _norm_walk(self, res):
        return [[self.sb.rel(d), sorted(ds), sorted(fs)] for d, ds, fs in res]

    def query(self, kind, rel, cmp='METADATA'):
        return mask_answer(kind, rel, self._query(kind, rel, cmp), self.log.get('mask'))

    def _query(self, kind, rel, cmp='METADATA'):
        p = self.sb.p(rel)
        b = self.b
        self.log['answers'] += 1
        try:
            if kind == 'read':
                with b.read_binary(p, _cmp_enum(self.fb, cmp)) as f:
                    return f.read().decode('latin1')
            if kind == 'readh':
                with b.read_binary(p, _cmp_enum(self.fb, 'HASH')) as f:
                    return f.read().decode('latin1')
            if kind == 'walk':
                return self._norm_walk(b.walk(p))
            if kind == 'walkb':
                return self._norm_walk(b.walk(p, False))
            if kind == 'list_dir':
                return sorted(b.list_dir(p))
            if kind == 'get_size':
                r = b.get_size(p)
                if os.path.isdir(p):
                    return 'DIRSIZE'
                return r
            return getattr(b, kind)(p)
        except OSError as e:
            return '!' + type(e).__name__
        except ValueError:
            if '\0' not in p:
                raise
            return '!ValueError'      # a name no file can have (embedded NUL): open() refuses it

    def battery(self, paths, full=True):
        return [['q', k, r, self.query(k, r)]
                for k in (KINDS if full else KINDS_CACHED) for r in list(paths) + ['']]

    def is_root(self):
        return self._root

    def write(self, text, fixed_stamp=False):
        with faults.paused():
            with open(self.target, 'w') as f:
                f.write(text)
            self.sb.stamp(self.target, self.sb.FIXED_STAMP if fixed_stamp else None)
        self.last_written = text

    def build_file(self, rel, cmp, fname, body, args, kwargs):
        p = self.sb.p(rel) if isinstance(rel, str) else rel
        self.log['bf_paths'].append(rel)
        C = self.log.setdefault('contract', [])
        state = {}

        def fn(b2, path, *a, **kw):
            api = RealApi(self.fb, self.sb, b2, path, self.log)
            api.last_written = None
            state['api'] = api
            with faults.paused():
                if isinstance(p, str):
                    if type(path) is not str or path != os.path.normpath(os.path.abspath(p)):
                        C.append(['path_arg', rel, repr(path)])
                if os.path.lexists(path):
                    C.append(['target_present_at_start', rel])
                if not os.path.isdir(os.path.dirname(path)):
                    C.append(['parent_missing_at_start', rel])
            return body(api, *a, **kw)
        try:
            rv = self.b.build_file_with_comparison(
                p, _cmp_enum(self.fb, cmp), fname, fn, *args, **kwargs)
        except Exception:
            if 'api' in state:
                with faults.paused():
                    if os.path.lexists(p):
                        C.append(['target_exists_after_failure', rel])
            raise
        with faults.paused():
            if not os.path.isfile(p):
                C.append(['not_a_file_after_success', rel])
            elif 'api' in state and state['api'].last_written is not None:
                with open(p) as f:
                    if f.read() != state['api'].last_written:
                        C.append(['content_mismatch', rel])
        return rv

    def subbuild(self, fname, body, args, kwargs):
        def fn(b2, *a, **kw):
            return body(RealApi(self.fb, self.sb, b2, None, self.log), *a, **kw)
        return self.b.subbuild(fname, fn, *args, **kwargs)


class RefApi:
    def __init__(self, sb, run, target=None, root=False):
        self._root = root
        self.sb = sb
        self.run = run
        self.target = target
        self.written = None

    def target_rel(self):
        return None if self.target is None else self.sb.rel(self.target)

    def query(self, kind, rel, cmp='METADATA'):
        r = self.run.query(kind, self.sb.p(rel), cmp)
        if kind in ('walk', 'walkb'):
            r = [[self.sb.rel(d), ds, fs] for d, ds, fs in r]
        return mask_answer(kind, rel, r, self.run.mask)

    def battery(self, paths, full=True):
        return [['q', k, r, self.query(k, r)]
                for k in (KINDS if full else KINDS_CACHED) for r in list(paths) + ['']]

    def is_root(self):
        return self._root

    def write(self, text, fixed_stamp=False):
        self.written = text.encode()

    def build_file(self, rel, cmp, fname, body, args, kwargs):
        p = self.sb.p(rel)
        args2 = jround_checked(list(args))
        kwargs2 = jround_checked(dict(kwargs))

        def b():
            a = RefApi(self.sb, self.run, p)
            rv = body(a, *args2, **kwargs2)
            return (a.written, rv)
        from .dsl import canon
        return self.run.build_file(p, b, canon([fname, cmp, args2, kwargs2]))

    def subbuild(self, fname, body, args, kwargs):
        args2 = jround_checked(list(args))
        kwargs2 = jround_checked(dict(kwargs))
        from .dsl import canon
        key = canon([fname, args2, kwargs2])
        return self.run.subbuild(key, lambda: body(RefApi(self.sb, self.run, None), *args2, **kwargs2))
