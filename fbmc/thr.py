"""Thread scenarios for the schedule explorer: a small op language executed by
2-3 threads on one builder, and the sequential twin used as the oracle."""
import itertools
import json
import os

from . import sched
from . import universe as uni
from .apis import RealApi
from .dsl import UserError, CATCH, canon, digest

BUILD = 'n'


def fn_name(op):
    return '%s_%s_%s' % (op['o'], op.get('mode', 'ok'), digest(op.get('ch', []) + [op.get('tag')], 6))


def exec_op(api, op, inv, results=None):
    """Execute one op on `api`; returns ['ok', value] | ['exc', class name]."""
    o = op['o']
    try:
        if o == 'q':
            return ['ok', api.query(op['kind'], op['p'], op.get('cmp', 'METADATA'))]
        if o == 'bf':
            def body(a2, *args, **kw):
                inv.append(['bf', op['p']])
                mode = op.get('mode', 'ok')
                sub = [exec_op(a2, c, inv) for c in op.get('ch', [])]
                if mode == 'rb':
                    raise UserError('rb')
                if mode == 'w2':
                    a2.write('W')       # the output is written in two steps (open is a scheduling point)
                if mode != 'nc':
                    a2.write('W:' + op['p'])
                if mode == 'ra':
                    raise UserError('ra')
                return ['bf', op['p'], sub]
            return ['ok', api.build_file(op['p'], op.get('cmp', 'METADATA'), fn_name(op), body, op.get('args', []), {})]
        if o == 'sb':
            def body(a2, *args, **kw):
                inv.append(['sb', op['name'], list(args)])
                sub = [exec_op(a2, c, inv) for c in op.get('ch', [])]
                if op.get('par'):
                    # threads inside this subbuild's builder (the pattern of samples/parallel_seam_carving)
                    s = sched.S
                    if s is not None and s.active and s.tid() is not None:
                        box = {}

                        def worker(k):
                            box[k] = [exec_op(a2, c, inv) for c in op['par'][k]]
                        tids = [s.spawn(worker, k) for k in range(len(op['par']))]
                        s.join(tids)
                        sub.append([box.get(k) for k in range(len(op['par']))])
                    else:
                        sub.append([[exec_op(a2, c, inv) for c in ops] for ops in op['par']])
                if op.get('mode') == 'rb':
                    raise UserError('rb')
                return ['sb', op['name'], sub]
            return ['ok', api.subbuild(op['name'], body, op.get('args', []), {})]
        raise ValueError(o)
    except CATCH as e:
        return ['exc', type(e).__name__]


def all_ops(sc):
    return [op for t in sc['threads'] for op in t]


def orders(sc):
    """All interleavings of the threads' op lists (as lists of (thread, index))."""
    lens = [len(t) for t in sc['threads']]
    items = []
    for t, n in enumerate(lens):
        items += [t] * n
    seen = set()
    for perm in itertools.permutations(items):
        if perm in seen:
            continue
        seen.add(perm)
        idx = [0] * len(lens)
        out = []
        for t in perm:
            out.append((t, idx[t]))
            idx[t] += 1
        yield out


class Runner:
    def __init__(self, ctx):
        self.ctx = ctx
        self.sb = ctx.sb
        self.FB = ctx.fb.FileBuilder
        self.cache = self.sb.p('c')

    def prepare(self, sc):
        sb = self.sb
        sb.reset()
        for m in sc.get('t0', []):
            uni.apply_mutation(sb, m)
        if sc.get('prep'):
            inv = []

            def root(b):
                api = RealApi(self.ctx.fb, sb, b, None, None, root=True)
                return [exec_op(api, op, inv) for op in sc['prep']]
            self.FB.build(self.cache, BUILD, root)
        for m in sc.get('prep_mut', []):
            uni.apply_mutation(sb, m)

    def phases_after(self, sc, first):
        """Sequential phases after the first build: unchanged rebuild, clean."""
        sb = self.sb
        t1 = self.tree()
        from .history import cache_duplicates, cache_comparison_mismatches, cache_forest
        snap = uni.snap(sb.R)
        dups = cache_duplicates(snap.get('c')) if first.get('build') == 'done' else []
        cmps = cache_comparison_mismatches(snap, 'c', sb) if first.get('build') == 'done' else []
        forest = cache_forest(snap, 'c', sb) if first.get('build') == 'done' else None
        inv = []

        def root(b):
            api = RealApi(self.ctx.fb, sb, b, None, None, root=True)
            return [exec_op(api, op, inv) for op in all_ops(sc) + list(sc.get('after', []))]
        try:
            r2 = self.FB.build(self.cache, BUILD, root)
        except Exception as e:
            r2 = 'EXC ' + type(e).__name__
        t2 = self.tree()
        try:
            self.FB.clean(self.cache, BUILD)
            cl = 'ok'
        except Exception as e:
            cl = 'EXC ' + type(e).__name__
        t3 = self.tree()
        return {'first': first, 'tree': t1, 'cache_duplicates': dups, 'cache_comparison_mismatches': [c[:2] for c in cmps], 'cache_forest': forest, 'rebuild': r2, 'rebuild_inv': sorted(map(canon, inv)), 'tree2': t2,
                'clean': cl, 'tree3': t3, 'tmp': self.sb.tmp_listing()}

    def tree(self):
        out = []
        for r, v in sorted(uni.snap(self.sb.R).items()):
            if v[0] == 'd':
                out.append([r, 'd'])
            elif r == 'c':
                out.append([r, 'cache'])
            else:
                out.append([r, 'f', v[1].decode('latin1')])
        return out

    def run_sequential(self, sc, order):
        self.prepare(sc)
        sb = self.sb
        inv = []
        res = {}

        def root(b):
            api = RealApi(self.ctx.fb, sb, b, None, None, root=True)
            for t, i in order:
                res['%d.%d' % (t, i)] = exec_op(api, sc['threads'][t][i], inv)
            for j, op in enumerate(sc.get('after', [])):
                res['after.%d' % j] = exec_op(api, op, inv)
            if sc.get('raise_after'):
                raise UserError('root raises after the operations')
            return 'done'
        try:
            rv = self.FB.build(self.cache, BUILD, root)
        except Exception as e:
            rv = 'EXC ' + type(e).__name__
        if sc.get('transient_queries'):
            res = {k: v for k, v in res.items() if k.startswith('after.') or k in sc['transient_queries'].get('keep', [])}
        first = {'build': rv, 'ops': res, 'inv': sorted(map(canon, inv))}
        return self.phases_after(sc, first)

    def run_concurrent(self, sc, prefix, line=False):
        """One execution under the scheduler.  Returns (scheduler, outcome)."""
        self.prepare(sc)
        sb = self.sb
        inv = []
        res = {}
        libdir = os.path.join(uni.REPO, 'file_builder')
        box = {}

        def body(s):
            def root(b):
                api = RealApi(self.ctx.fb, sb, b, None, None, root=True)

                def worker(t):
                    for i, op in enumerate(sc['threads'][t]):
                        res['%d.%d' % (t, i)] = exec_op(api, op, inv)
                s.active = True
                tids = [s.spawn(worker, t) for t in range(len(sc['threads']))]
                s.join(tids)
                s.active = False
                for j, op in enumerate(sc.get('after', [])):
                    res['after.%d' % j] = exec_op(api, op, inv)
                if sc.get('raise_after'):
                    raise UserError('root raises after the operations')
                return 'done'
            try:
                box['rv'] = self.FB.build(self.cache, BUILD, root)
            except (sched.Deadlock, sched.LostControl, sched.Divergence) as e:
                box['rv'] = 'SCHED ' + type(e).__name__
            except Exception as e:
                box['rv'] = 'EXC ' + type(e).__name__
            finally:
                s.active = False
        s = sched.run_schedule(body, prefix, line, libdir)
        thread_excs = sorted(type(st.exc).__name__ for st in s.threads.values() if st.exc is not None)
        if sc.get('transient_queries'):
            res = {k: v for k, v in res.items() if k.startswith('after.') or k in sc['transient_queries'].get('keep', [])}
        first = {'build': box.get('rv'), 'ops': res, 'inv': sorted(map(canon, inv))}
        if thread_excs:
            first['thread_exceptions'] = thread_excs
        if s.failure is not None:
            first['failure'] = type(s.failure).__name__ + ': ' + str(s.failure)[:120]
            return s, {'first': first}
        return s, self.phases_after(sc, first)
