"""Effectiveness oracle (C05/C06/C13): which invocations of build_file/subbuild
functions are justified, derived from the reference model's trace trees of two
consecutive builds.  One-sided: it only ever *forbids* an invocation, and it is
silent whenever a condition is unclear (DESIGN.md section 4)."""
from .dsl import canon
from .valmc import canonform


def ident_of_node(n):
    return (n['kind'], n['p'], n['key'])


def calls(node, out=None, dup=None):
    """ident -> node for every call node below `node` (first occurrence);
    idents that occur more than once are collected in dup."""
    if out is None:
        out, dup = {}, set()
    for op in node['ops']:
        if 'outcome' in op:
            i = ident_of_node(op)
            if i in out:
                dup.add(i)
            else:
                out[i] = op
            calls(op, out, dup)
    return out, dup


def subtree(node):
    yield node
    for op in node['ops']:
        if 'outcome' in op:
            yield from subtree(op)


def has_setup_failure(node):
    return any(n['outcome'] == 'setup_failed' for n in subtree(node))


def clear(node, root, mask):
    """No answer in the subtree that the model masks, no read of a file this
    build produced (its stamp depends on what was re-executed)."""
    for n in subtree(node):
        for op in n['ops']:
            if 'outcome' in op:
                continue
            if op.get('file', {}).get('output'):
                return False
            if mask and op['p'] == root and op['kind'] in ('list_dir', 'walk', 'walkb'):
                return False
    return True


def ghost_dirsize(node, files):
    """The subtree asked for the size of a directory that does not exist when
    the rebuild starts (it only comes into being, virtually, while the record
    of the build_file call that creates it is replayed)."""
    for n in subtree(node):
        for op in n['ops']:
            if 'outcome' not in op and op['a'] == 'DIRSIZE' and files.get(op['p'], (None,))[0] != 'd':
                return True
    return False


def trace_equal(a, b):
    if ('outcome' in a) != ('outcome' in b):
        return False
    if 'outcome' in a:
        if ident_of_node(a) != ident_of_node(b) or a['outcome'] != b['outcome'] or len(a['ops']) != len(b['ops']):
            return False
        if a.get('displaced') != b.get('displaced'):
            return False
        return all(trace_equal(x, y) for x, y in zip(a['ops'], b['ops']))
    if a.get('op') != b.get('op'):
        return False
    if (a['kind'], a['p'], a['cmp']) != (b['kind'], b['p'], b['cmp']) or a['a'] != b['a']:
        return False
    fa, fb = a.get('file'), b.get('file')
    if (fa is None) != (fb is None):
        return False
    if fa is not None and fa['mid'] != fb['mid']:
        return False
    return True


def root_equal(a, b):
    return len(a['ops']) == len(b['ops']) and all(trace_equal(x, y) for x, y in zip(a['ops'], b['ops']))


def fname_of(node):
    import json
    return json.loads(node['key'])[0]


def versions_equal(node, v_old, v_new):
    for n in subtree(node):
        f = fname_of(n)
        if canonform(v_old.get(f)) != canonform(v_new.get(f)):
            return False
    return True


def versions_equal_all(v_old, v_new):
    return all(canonform(v_old.get(k)) == canonform(v_new.get(k)) for k in set(v_old) | set(v_new))


def outputs_intact(node, files_then, files_now):
    for n in subtree(node):
        if n['kind'] == 'bf' and n['outcome'] == 'ok':
            if files_then.get(n['p']) != files_now.get(n['p']) or files_now.get(n['p']) is None:
                return False
    return True


def must_not_run(prev, trace_now, files_now, versions_now, root, mask):
    """Set of idents that may not be invoked in the current build.
    prev = {'trace', 'files', 'versions'} of the previous committed build."""
    then, dup1 = calls(prev['trace'])
    now, dup2 = calls(trace_now)
    out = {}
    for i, n_now in now.items():
        if i in dup1 or i in dup2:
            continue
        n_then = then.get(i)
        if n_then is None or n_then['outcome'] != 'ok' or has_setup_failure(n_then):
            continue
        if not versions_equal(n_then, prev['versions'], versions_now):
            continue
        if not outputs_intact(n_then, prev['files'], files_now):
            continue
        if not clear(n_then, root, mask) or not trace_equal(n_then, n_now):
            continue
        if any(n.get('displaced') and n['outcome'] != 'ok' for n in subtree(n_now)):
            # something stands where a recorded *failed* output would be written: executing the
            # call removes it, replaying the record would not - re-execution is justified
            continue
        out[i] = n_then
    return out


def displaced_failure(trace):
    return any(n.get('displaced') and n.get('outcome') != 'ok' for n in subtree(trace))


def predict_unchanged(trace):
    """Invocation log of a rebuild when nothing changed, in execution order."""
    log = []

    def run(ops):
        for op in ops:
            if 'outcome' not in op:
                continue
            if op['outcome'] == 'setup_failed':
                continue
            if op['outcome'] == 'ok' and not has_setup_failure(op):
                continue
            log.append(ident_of_node(op))
            run(op['ops'])
    run(trace['ops'])
    return log


def predict_versions(trace, v_old, v_new):
    """Invocation log of a rebuild when only function versions changed."""
    log = []

    def run(ops):
        for op in ops:
            if 'outcome' not in op or op['outcome'] == 'setup_failed':
                continue
            if op['outcome'] == 'ok' and not has_setup_failure(op) and versions_equal(op, v_old, v_new):
                continue
            log.append(ident_of_node(op))
            run(op['ops'])
    run(trace['ops'])
    return log


def real_idents(sb, real_inv, cmp_of=None):
    """Invocation log of the implementation in the same ident form."""
    out = []
    for fn, rel, args, kwargs in real_inv:
        if rel is None:
            out.append(('sb', None, canon([fn, args, kwargs])))
        else:
            out.append(('bf', sb.p(rel), (fn, canon(args), canon(kwargs))))
    return out


def loose(ident):
    """bf idents of the model carry the comparison mode; drop it for matching."""
    if ident[0] == 'bf' and isinstance(ident[2], str):
        import json
        fn, cmp, args, kwargs = json.loads(ident[2])
        return ('bf', ident[1], (fn, canon(args), canon(kwargs)))
    return ident
