"""Reference model ("Ref"): the documented from-scratch semantics of
FileBuilder on an in-memory tree.  Deliberately boring: no cache, no
incrementality.  See DESIGN.md section 3.4.
"""
import json
import posixpath as pp


_MID = [0]


def new_mid():
    """Fresh "metadata identity" (stands for size + mtime) of a regular file."""
    _MID[0] += 1
    return _MID[0]


class VFS:
    """In-memory tree below a root: abs path -> ('f', bytes, mid) | ('d',).
    mid changes whenever size or mtime of the file change."""

    def __init__(self, root, t=None):
        self.root = root
        self.t = dict(t) if t else {}

    def copy(self):
        return VFS(self.root, self.t)

    def kind(self, p):
        if p == self.root:
            return 'd'
        e = self.t.get(p)
        if e is not None:
            return e[0]
        if self.root.startswith(p.rstrip('/') + '/'):
            return 'd'          # ancestors of the sandbox root
        return None

    def children(self, d):
        pre = d.rstrip('/') + '/'
        n = len(pre)
        return sorted(p[n:] for p in self.t if p.startswith(pre) and '/' not in p[n:])

    def has_descendants(self, d):
        pre = d + '/'
        return any(p.startswith(pre) for p in self.t)

    def write(self, p, data):
        assert self.kind(pp.dirname(p)) == 'd', p
        assert self.kind(p) != 'd', p
        self.t[p] = ('f', data, new_mid())

    def touch(self, p):
        self.t[p] = ('f', self.t[p][1], new_mid())

    def write_keep_meta(self, p, data):
        self.t[p] = ('f', data, self.t[p][2])

    def mkdir(self, p):
        assert self.kind(pp.dirname(p)) == 'd', p
        assert self.kind(p) is None, p
        self.t[p] = ('d',)

    def remove(self, p):
        assert self.t[p][0] == 'f'
        del self.t[p]

    def rmtree(self, p):
        pre = p + '/'
        for q in [q for q in self.t if q == p or q.startswith(pre)]:
            del self.t[q]

    def as_plain(self, rel):
        return {rel(p): (v if v[0] == 'd' else ('f', v[1])) for p, v in self.t.items()}


class RefState:
    """What persists between API calls: the tree and the record of the last
    committed build (which lives in the cache file)."""

    def __init__(self, root, cache):
        self.fs = VFS(root)
        self.cache = cache
        self.rec = None     # dict(outputs=set, created=set, versions=dict)
        self.last_trace = None

    def sync(self):
        """After an external mutation: no cache file => no record."""
        e = self.fs.t.get(self.cache)
        if e is None or e[0] != 'f':
            self.rec = None

    def f0(self):
        """The tree a from-scratch build starts from."""
        fs = self.fs.copy()
        if self.rec is not None:
            for o in self.rec['outputs']:
                if fs.t.get(o, ('x',))[0] == 'f':
                    del fs.t[o]
            if fs.t.get(self.cache, ('x',))[0] == 'f':
                del fs.t[self.cache]
            for d in sorted(self.rec['created'], key=lambda d: -len(d)):
                if fs.t.get(d) == ('d',) and not fs.has_descendants(d):
                    del fs.t[d]
        return fs

    def clean(self):
        if self.fs.kind(self.cache) is None:
            return
        if self.rec is None:
            return
        self.fs = self.f0()
        self.rec = None


def jround(v):
    return json.loads(json.dumps(v))


class RefRun:
    """One from-scratch build on RefState."""

    def __init__(self, st, versions=None):
        self.st = st
        self.fs = st.f0()
        self.versions = dict(versions or {})
        self.outputs = set()
        self.attempted = set()      # passed setup (incl. failed later)
        self.passed = set()         # every path handed to build_file
        self.created = set()        # dirs this build created and still owns
        self.inprog = []
        self.subkeys = set()
        self.stampc = 0
        self.stamps = {}            # path -> logical stamp of outputs
        self.mask = None            # names at the root that are not observed
        # trace tree of this from-scratch run (effectiveness oracle)
        self.trace = {'kind': 'root', 'ops': []}
        self.cur = [self.trace]
        # directories needed for the cache file
        d = pp.dirname(st.cache)
        mk = []
        while self.fs.kind(d) is None:
            mk.append(d)
            d = pp.dirname(d)
        if self.fs.kind(d) != 'd':
            raise NotADirectoryError(d)
        for d in reversed(mk):
            self.fs.t[d] = ('d',)
            self.created.add(d)
        self.cache_dirs = set(mk)

    # -- virtual view -------------------------------------------------------
    def vkind(self, p):
        if p == self.st.cache or p in self.inprog:
            return None
        k = self.fs.kind(p)
        if k is None:
            return None
        return k

    def vchildren(self, d):
        pre = d.rstrip('/') + '/'
        return [n for n in self.fs.children(d) if self.vkind(pre + n) is not None]

    def query(self, kind, p, cmp='METADATA'):
        a = self._query(kind, p)
        op = {'op': 'q', 'kind': kind, 'p': p, 'cmp': 'HASH' if kind == 'readh' else cmp, 'a': a}
        if kind in ('read', 'readh') and self.vkind(p) == 'f':
            e = self.fs.t[p]
            op['file'] = {'mid': e[2], 'output': p in self.outputs}
        self.cur[-1]['ops'].append(op)
        return a

    def _query(self, kind, p):
        """Answer in normalised JSON form; OSError classes as strings '!Name'."""
        kd = self.vkind(p)
        if kind == 'exists':
            return kd is not None
        if kind == 'is_file':
            return kd == 'f'
        if kind == 'is_dir':
            return kd == 'd'
        if kind == 'list_dir':
            if kd == 'd':
                return self.vchildren(p)
            return '!NotADirectoryError' if kd == 'f' else '!FileNotFoundError'
        if kind == 'get_size':
            if kd == 'f':
                return len(self.fs.t[p][1])
            return 'DIRSIZE' if kd == 'd' else '!FileNotFoundError'
        if kind in ('read', 'readh'):
            if '\0' in p:
                return '!ValueError'      # a name no file can have: open() refuses it (os.path.exists() says False)
            if kd == 'f':
                return self.fs.t[p][1].decode('latin1')
            return '!IsADirectoryError' if kd == 'd' else '!FileNotFoundError'
        if kind in ('walk', 'walkb'):
            out = []

            def rec(d):
                ks = self.vchildren(d)
                pre = d.rstrip('/') + '/'
                ds = [n for n in ks if self.vkind(pre + n) == 'd']
                fs_ = [n for n in ks if self.vkind(pre + n) == 'f']
                if kind == 'walk':
                    out.append([d, ds, fs_])
                for n in ds:
                    rec(pre + n)
                if kind == 'walkb':
                    out.append([d, ds, fs_])
            if kd == 'd':
                rec(p)
            return out
        raise ValueError(kind)

    # -- complex operations -------------------------------------------------
    def build_file(self, p, body, key=None):
        """body() -> (written bytes or None, return value); may raise."""
        node = {'kind': 'bf', 'p': p, 'key': key, 'ops': [], 'outcome': 'setup_failed'}
        self.cur[-1]['ops'].append(node)
        self.cur.append(node)
        try:
            rv = self._build_file(p, body, node)
            node['outcome'] = 'ok'
            return rv
        finally:
            self.cur.pop()

    def _build_file(self, p, body, node):
        self.passed.add(p)
        if p in self.attempted:
            raise RuntimeError('same file twice')
        if p == self.st.cache:
            raise RuntimeError('cache file')
        if self.vkind(p) == 'd':
            raise IsADirectoryError(p)
        mk = []
        d = pp.dirname(p)
        while True:
            kd = self.vkind(d)
            if kd == 'd':
                break
            if kd == 'f' or d == self.st.cache or d in self.inprog:
                raise NotADirectoryError(d)
            mk.append(d)
            nd = pp.dirname(d)
            if nd == d:
                raise FileNotFoundError(d)
            d = nd
        for d in mk:
            if len(pp.basename(d).encode()) > 255:
                # creating the directories fails part-way: no effect remains
                raise OSError(36, 'File name too long')
            if '\0' in pp.basename(d):
                # a name no file can have: os.mkdir raises ValueError; no effect remains
                raise ValueError('embedded null byte')
        for d in reversed(mk):
            self.fs.t[d] = ('d',)
            self.created.add(d)
        if p in self.fs.t:
            self.fs.rmtree(p)          # a foreign file here is dropped
            node['displaced'] = True
        self.attempted.add(p)
        self.inprog.append(p)
        node['outcome'] = 'raised'
        try:
            w, rv = body()
            rv = jround_checked(rv)
            if w is None:
                raise RuntimeError('not created')
        except Exception:
            self.inprog.remove(p)
            self.fs.t.pop(p, None)
            self._gc(pp.dirname(p))
            raise
        self.inprog.remove(p)
        self.fs.t[p] = ('f', w, new_mid())
        self.outputs.add(p)
        self.stampc += 1
        self.stamps[p] = self.stampc
        return rv

    def _gc(self, d):
        """Remove directories this build created that are now empty and not
        reserved by an output still in progress."""
        while d in self.created and d in self.fs.t:
            pre = d + '/'
            if self.fs.has_descendants(d) or any(q.startswith(pre) for q in self.inprog):
                break
            if self.st.cache.startswith(pre):
                break       # the cache file will be written here: the directory stays
            del self.fs.t[d]
            self.created.discard(d)
            d = pp.dirname(d)

    def subbuild(self, key, body):
        node = {'kind': 'sb', 'p': None, 'key': key, 'ops': [], 'outcome': 'setup_failed'}
        self.cur[-1]['ops'].append(node)
        self.cur.append(node)
        try:
            if key in self.subkeys:
                raise RuntimeError('same subbuild twice')
            self.subkeys.add(key)
            node['outcome'] = 'raised'
            rv = jround_checked(body())
            node['outcome'] = 'ok'
            return rv
        finally:
            self.cur.pop()

    def commit(self):
        st = self.st
        st.fs = self.fs
        st.fs.t[st.cache] = ('f', b'<cache>', 0)
        st.last_trace = self.trace
        st.rec = dict(outputs=set(self.outputs), created=set(self.created),
                      versions=dict(self.versions))


def jround_checked(v):
    """JSON round trip with the library's TypeError for non-JSON values."""
    try:
        return json.loads(json.dumps(v))
    except (TypeError, ValueError):
        raise TypeError('not a JSON value')
