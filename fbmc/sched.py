"""E2 schedmc: stateless, preemption-bounded schedule enumeration over real
threads running the real library (CHESS-style).

Exactly one thread runs at a time (a baton: one semaphore per thread).
Scheduling points are injected from /verif without touching /repo:
  * `threading` in the five library modules is a proxy whose Lock is a
    cooperative lock (acquire is a point; a held lock blocks the thread in the
    scheduler, never in the OS; release is not a point);
  * every file-system primitive the library uses is wrapped globally
    (os.stat/lstat/mkdir/rmdir/rename/replace/remove/unlink/listdir/scandir/
    utime and builtins.open);
  * the deliberately unsynchronised flags (Operation.is_finished,
    FileBuilder._is_finished_build, ComplexOperation.suboperations/raised) are
    class-level properties whose get/set is a point;
  * thread start, join (blocking), and exit are points.
"""
import builtins
import os
import sys
import threading
import time

WATCHDOG_S = 120.0


class Deadlock(Exception):
    pass


class LostControl(Exception):
    pass


class Divergence(Exception):
    pass


class _TState:
    __slots__ = ('tid', 'sem', 'blocked', 'done', 'exc', 'thread', 'result')

    def __init__(self, tid):
        self.tid = tid
        self.sem = threading.Semaphore(0)
        self.blocked = None
        self.done = False
        self.exc = None
        self.thread = None
        self.result = None


class Scheduler:
    def __init__(self, prefix=()):
        self.prefix = list(prefix)
        self.choices = []
        self.points = []      # (n_enabled, running_still_enabled, label)
        self.threads = {}
        self.tl = threading.local()
        self.active = False
        self.failure = None
        self.granularity = 'coarse'

    # -- thread bookkeeping -----------------------------------------------
    def tid(self):
        return getattr(self.tl, 'tid', None)

    def register_main(self):
        st = _TState(0)
        self.threads[0] = st
        self.tl.tid = 0

    def spawn(self, fn, *args):
        tid = len(self.threads)
        st = _TState(tid)
        self.threads[tid] = st

        def run():
            self.tl.tid = tid
            if not st.sem.acquire(timeout=WATCHDOG_S):
                return
            try:
                st.result = fn(*args)
            except BaseException as e:       # noqa
                st.exc = e
            st.done = True
            try:
                self._switch(exiting=True, label='exit')
            except BaseException as e:       # noqa
                self.failure = self.failure or e
                # wake everybody so the run can end
                for o in self.threads.values():
                    o.sem.release()
        t = threading.Thread(target=run, daemon=True)
        st.thread = t
        t.start()
        self.point('spawn')
        return tid

    def enabled(self):
        out = []
        for tid, st in self.threads.items():
            if st.done:
                continue
            b = st.blocked
            if b is None:
                out.append(tid)
            elif b[0] == 'lock':
                if b[1].owner is None:
                    out.append(tid)
            elif b[0] == 'join':
                if all(self.threads[j].done for j in b[1]):
                    out.append(tid)
        return out

    def _switch(self, exiting=False, label=None):
        me = self.tid()
        if self.failure is not None and not exiting:
            raise LostControl('aborting after %r' % (self.failure,))
        en = self.enabled()
        if not en:
            if all(st.done for st in self.threads.values()):
                return
            self.failure = Deadlock('no enabled thread; blocked: %s' % (
                {t: (s.blocked[0] if s.blocked else None) for t, s in self.threads.items() if not s.done},))
            for o in self.threads.values():
                o.sem.release()
            if exiting:
                return
            raise self.failure
        running_enabled = me in en
        if running_enabled:
            en = [me] + [t for t in en if t != me]
        i = len(self.choices)
        c = self.prefix[i] if i < len(self.prefix) else 0
        if c >= len(en):
            self.failure = Divergence('choice %d of %d at point %d' % (c, len(en), i))
            for o in self.threads.values():
                o.sem.release()
            if exiting:
                return
            raise self.failure
        self.choices.append(c)
        self.points.append((len(en), running_enabled, label))
        nxt = en[c]
        if nxt != me:
            self.threads[nxt].sem.release()
            if not exiting:
                if not self.threads[me].sem.acquire(timeout=WATCHDOG_S):
                    self.failure = self.failure or LostControl('thread %s never got the baton back' % me)
                    raise self.failure
                if self.failure is not None:
                    raise LostControl('aborting after %r' % (self.failure,))

    def point(self, label=None):
        if not self.active or self.tid() is None:
            return
        self._switch(label=label)

    def join(self, tids):
        me = self.tid()
        st = self.threads[me]
        st.blocked = ('join', list(tids))
        try:
            self._switch(label='join')
        finally:
            st.blocked = None

    def preemptions(self):
        return sum(1 for c, (n, re_, _) in zip(self.choices, self.points) if c != 0 and re_)


S = None       # the scheduler of the run in progress


def _pt(label):
    s = S
    if s is not None and s.active and s.tid() is not None:
        s._switch(label=label)


class CoopLock:
    """Cooperative replacement for threading.Lock inside the library."""

    def __init__(self):
        self.owner = None

    def acquire(self, blocking=True, timeout=-1):
        s = S
        if s is None or not s.active or s.tid() is None:
            self.owner = 'seq'
            return True
        me = s.tid()
        st = s.threads[me]
        st.blocked = ('lock', self)
        try:
            s._switch(label='lock')
        finally:
            st.blocked = None
        if self.owner is not None:
            raise LostControl('lock handed to %s while owned by %s' % (me, self.owner))
        self.owner = me
        return True

    def release(self):
        self.owner = None

    def locked(self):
        return self.owner is not None

    def __enter__(self):
        self.acquire()
        return self

    def __exit__(self, *a):
        self.release()


class ThreadingProxy:
    Lock = CoopLock
    RLock = CoopLock

    def __getattr__(self, n):
        return getattr(threading, n)


OS_FUNCS = ['stat', 'lstat', 'mkdir', 'rmdir', 'rename', 'replace', 'remove', 'unlink', 'listdir', 'scandir', 'utime']
_installed = False
_REAL = {}


def _wrap(mod, name):
    real = getattr(mod, name)
    _REAL[(mod.__name__, name)] = real

    def w(*a, **k):
        _pt(name)
        return real(*a, **k)
    w.__name__ = name
    w.__wrapped__ = real
    setattr(mod, name, w)


AUDIT = []     # invariant violations observed by the instrumentation during the current run


class AuditedList(list):
    """The suboperations list of an operation record: appending to it after the
    record was closed (is_finished) is what C17 forbids."""

    def append(self, x):
        op = getattr(self, 'op', None)
        if op is not None and op.__dict__.get('_fbmc_is_finished'):
            AUDIT.append('appended to the closed record of %s' % type(op).__name__)
        list.append(self, x)


def _flag_property(cls, name, default=None):
    key = '_fbmc_' + name

    def get(self):
        _pt('rd:' + name)
        return self.__dict__.get(key, default)

    def set_(self, v):
        _pt('wr:' + name)
        if name == 'suboperations' and type(v) is list:
            a = AuditedList(v)
            a.op = self
            v = a
        self.__dict__[key] = v
    setattr(cls, name, property(get, set_))


def install(fbmod):
    global _installed
    if _installed:
        return
    _installed = True
    import file_builder.file_builder as m_fb
    import file_builder.cache as m_c
    import file_builder.build_dirs as m_bd
    import file_builder.simple_operation_executor as m_se
    import file_builder.file_backups as m_bk
    import file_builder.operation as m_op
    proxy = ThreadingProxy()
    for m in (m_fb, m_c, m_bd, m_se, m_bk):
        m.threading = proxy
    for n in OS_FUNCS:
        _wrap(os, n)
    _wrap(builtins, 'open')
    _flag_property(m_op.Operation, 'is_finished')
    _flag_property(m_op.ComplexOperation, 'suboperations')
    _flag_property(m_op.ComplexOperation, 'raised')
    _flag_property(m_fb.FileBuilder, '_is_finished_build', False)


# ---------------------------------------------------------------------------
# line-granularity audit: every source line of the library is a point
# ---------------------------------------------------------------------------

def _line_tracer(libdir):
    def local(frame, event, arg):
        if event == 'line':
            _pt('line')
        return local

    def tracer(frame, event, arg):
        if event == 'call' and frame.f_code.co_filename.startswith(libdir):
            return local
        return None
    return tracer


def run_schedule(body, prefix, line_granularity=False, libdir=None):
    """Run body(sched) under the given choice prefix.  body is executed by
    thread 0 (the caller's thread); it spawns threads via sched.spawn and must
    join them.  Returns the scheduler (choices, points, failure)."""
    global S
    s = Scheduler(prefix)
    S = s
    del AUDIT[:]
    s.register_main()
    tracer = _line_tracer(libdir) if line_granularity else None
    if tracer:
        threading.settrace(tracer)
        sys.settrace(tracer)
    try:
        body(s)
    finally:
        s.active = False
        if tracer:
            sys.settrace(None)
            threading.settrace(None)
        for st in s.threads.values():
            if st.thread is not None:
                st.thread.join(WATCHDOG_S)
        S = None
    return s


class Explorer:
    """CHESS loop.  run(prefix) -> (scheduler, outcome).  Iterating yields
    (scheduler, outcome) for every schedule with at most `bound` preemptions;
    afterwards .complete tells whether the space was exhausted and .execs how
    many executions were run."""

    def __init__(self, run, bound, max_execs=None, deadline=None):
        self.run = run
        self.bound = bound
        self.max_execs = max_execs
        self.deadline = deadline
        self.complete = None
        self.execs = 0
        self.max_points = 0

    def __iter__(self):
        stack = [[]]
        self.complete = True
        while stack:
            if (self.max_execs and self.execs >= self.max_execs) or (self.deadline and time.time() > self.deadline):
                self.complete = False
                break
            prefix = stack.pop()
            s, outcome = self.run(prefix)
            self.execs += 1
            self.max_points = max(self.max_points, len(s.choices))
            yield s, outcome
            if s.failure is not None and isinstance(s.failure, (Divergence, LostControl)):
                continue
            pre = 0
            pres = []
            for c, (ne, re_, _) in zip(s.choices, s.points):
                pres.append(pre)
                if c != 0 and re_:
                    pre += 1
            for i in range(len(prefix), len(s.choices)):
                ne, re_, _ = s.points[i]
                cost = pres[i] + (1 if re_ else 0)
                if cost > self.bound:
                    continue
                for alt in range(1, ne):
                    stack.append(s.choices[:i] + [alt])
