"""E3: deviation-bounded fault injection.  The mutating file-system primitives
the library uses are wrapped globally (os.mkdir/rmdir/rename/replace/remove/
unlink and builtins.open for writing); while *armed* the wrappers count the
calls and make exactly the k-th raise OSError.  Arming is owned by the
harness: armed inside a FileBuilder API call, disarmed inside user functions
(their own writes are not library calls) and from the moment commit or
roll back starts (the properties speak about faults "before the commit").

os.makedirs, gzip.open, tempfile.mkdtemp and shutil.rmtree all route through
these primitives, so one interception layer is enough.
"""
import builtins
import errno
import os

_REAL = {}
_STATE = {
    'armed': False,
    'count': 0,
    'k': None,            # 1-based index of the call to fail (None: count only)
    'errno': errno.EIO,
    'log': [],            # names of the counted calls
    'fired': None,        # (name, path, active call id) when the fault fired
    'ctx': None,          # callable returning the innermost active call id
    'file_fault': None,   # ('write', n) | ('close',) for the k-th open-for-write
    'epoch': 0,           # run counter: a FaultyFile only acts within its own run
}
NAMES = ['mkdir', 'rmdir', 'rename', 'replace']   # + builtins.open for writing


class FaultyFile:
    """Proxy around a file opened for writing: fails at write (after n bytes)
    or at close."""

    def __init__(self, f, mode, st):
        self._f = f
        self._mode = mode
        self._st = st
        self._written = 0
        self._epoch = st['epoch']

    def write(self, data):
        m = self._mode
        if m[0] == 'write' and _STATE['armed'] and _STATE['epoch'] == self._epoch:
            n = m[1]
            room = n - self._written
            if room <= 0 or len(data) > room:
                if room > 0:
                    self._f.write(data[:room])
                    self._written += room
                self._st['fired'] = ('file.write', getattr(self._f, 'name', ''), _ctx())
                raise OSError(errno.ENOSPC, 'injected: no space left on device')
        self._written += len(data)
        return self._f.write(data)

    def close(self):
        if (self._mode[0] == 'close' and not self._f.closed and _STATE['armed'] and
                _STATE['epoch'] == self._epoch):
            self._f.close()
            self._st['fired'] = ('file.close', getattr(self._f, 'name', ''), _ctx())
            raise OSError(errno.EIO, 'injected: close failed')
        return self._f.close()

    def __enter__(self):
        return self

    def __exit__(self, *a):
        self.close()

    def __getattr__(self, n):
        return getattr(self._f, n)


def _ctx():
    c = _STATE['ctx']
    return c() if c else None


def _wrap(mod, name):
    real = getattr(mod, name)
    _REAL[(mod, name)] = real

    def w(*a, **k):
        st = _STATE
        if st['armed']:
            if name == 'open':
                mode = a[1] if len(a) > 1 else k.get('mode', 'r')
                if not isinstance(mode, str) or not ('w' in mode or 'a' in mode or 'x' in mode or '+' in mode):
                    return real(*a, **k)
            st['count'] += 1
            st['log'].append(name)
            if st['k'] == st['count']:
                if name == 'open' and st['file_fault']:
                    f = real(*a, **k)
                    return FaultyFile(f, st['file_fault'], st)
                st['fired'] = (name, str(a[0]) if a else '', _ctx())
                e = st['errno']
                raise OSError(e, 'injected: ' + os.strerror(e), str(a[0]) if a else None)
        return real(*a, **k)
    w.__name__ = name
    setattr(mod, name, w)


_installed = False


def install(fbmod):
    """Wrap the primitives and hook commit/roll back of the library under
    test so that the injection window ends there."""
    global _installed
    if _installed:
        return
    _installed = True
    for n in NAMES:
        _wrap(os, n)
    _wrap(builtins, 'open')
    FB = fbmod.FileBuilder
    for meth in ('_commit', '_roll_back'):
        orig = getattr(FB, meth)

        def hooked(self, *a, _orig=orig, **k):
            was = _STATE['armed']
            _STATE['armed'] = False
            try:
                return _orig(self, *a, **k)
            finally:
                _STATE['armed'] = False if was else was
        setattr(FB, meth, hooked)


def begin(k=None, err=errno.EIO, ctx=None, file_fault=None):
    _STATE['epoch'] += 1
    _STATE.update(armed=True, count=0, k=k, errno=err, log=[], fired=None, ctx=ctx, file_fault=file_fault)


def end():
    _STATE['armed'] = False
    return {'count': _STATE['count'], 'log': list(_STATE['log']), 'fired': _STATE['fired']}


class paused:
    """Context manager: user code runs with the injector disarmed."""

    def __enter__(self):
        self.was = _STATE['armed']
        _STATE['armed'] = False

    def __exit__(self, *a):
        _STATE['armed'] = self.was


def fired_call():
    return _STATE['fired'][2] if _STATE['fired'] else None


def active():
    return _installed
