"""./check replay <file>: re-execute a recorded history straight through the
interpreter (no explorer, no pool) and print what every step did."""
import json
import os
import shutil
import sys

from . import universe as uni
from .history import World, run_spec


def main(argv):
    if not argv:
        print('usage: check replay <file>')
        return 2
    with open(argv[0]) as f:
        v = json.load(f)
    engine = v.get('engine', 'seq')
    if engine != 'seq':
        import importlib
        mod = importlib.import_module('fbmc.' + engine)
        return mod.replay(v)
    fb = uni.import_library()
    sb = uni.Sandbox('replay')
    try:
        spec = v['history']
        if 'steps' not in spec:
            print('recorded: property=%s clause=%s facts=%s history=%s detail=%s' % (
                v.get('property'), v.get('clause'), json.dumps(v.get('facts')), json.dumps(spec), json.dumps(v.get('detail'), default=str)[:400]))
            print('(a raw-API case of the check itself; re-run ./check %s to reproduce)' % v.get('property'))
            return 1
        world = World(sb, fb, spec.get('cfg', 'K0'))
        results = run_spec(world, spec)
        nviol = 0
        print('recorded: property=%s clause=%s facts=%s' % (v.get('property'), v.get('clause'), json.dumps(v.get('facts'))))
        for st, r in zip(spec['steps'], results):
            if r is None:
                print('  mut   ', json.dumps(st['m']))
                continue
            if st['op'] == 'build':
                print('  build ', json.dumps(st['prog'])[:200], 'versions=%s crash=%s' % (st.get('versions'), st.get('crash')))
                print('        real=%s ref=%s invoked=%s' % (_o(r.real), _o(r.ref), [i[0] + (':' + i[1] if i[1] else '') for i in r.real_inv]))
            else:
                print('  clean  real=%s' % (_o(r.real),))
            print('        tree=%s' % sorted((k, x[0]) for k, x in r.after.items()))
            for x in r.violations:
                nviol += 1
                print('        VIOLATED %s %s %s' % (x['clause'], json.dumps(x['facts'], default=str), json.dumps(x['detail'], default=str)[:300]))
        print('replay: %d oracle violations' % nviol)
        return 1 if nviol else 0
    finally:
        sb.destroy()
        shutil.rmtree(os.path.dirname(sb.base), ignore_errors=True)


def _o(o):
    if o is None:
        return None
    if o[0] == 'exc':
        return 'raise ' + o[1]
    s = json.dumps(o[1], default=str)
    return 'ok ' + (s if len(s) < 100 else s[:100] + '...')
