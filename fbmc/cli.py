import importlib
import json
import os
import sys
import time

from . import engine

LEVELS = {}


def main(argv):
    if not argv:
        print('usage: check <ID> [--tier quick|thorough] | check replay <file>')
        return 2
    if argv[0] == 'replay':
        from . import replay
        return replay.main(argv[1:])
    if argv[0] == 'regress':
        # replay the recorded minimal history of every repaired defect (regressions/<id>.json, written by
        # tools/fix_matrix.sh from the tree with that repair reverted): none may violate its oracle again
        import contextlib
        import io
        from . import replay
        d = os.path.join(engine.VERIF, 'regressions')
        bad = 0
        for n in sorted(os.listdir(d)):
            if not n.endswith('.json') or n == 'fix_matrix.json':
                continue
            buf = io.StringIO()
            with contextlib.redirect_stdout(buf):
                code = replay.main([os.path.join(d, n)])
            print('%-10s %s' % (n[:-5], 'ok' if code == 0 else 'VIOLATED AGAIN'))
            if code:
                bad += 1
                print(buf.getvalue())
        return 1 if bad else 0
    prop = argv[0]
    tier = os.environ.get('VERIF_TIER', 'quick')
    if '--tier' in argv:
        tier = argv[argv.index('--tier') + 1]
    seed = int(os.environ.get('VERIF_SEED', '0') or 0)
    mod = importlib.import_module('fbmc.checks.' + prop.lower())
    t0 = time.time()
    cap = getattr(mod, 'CAP_S', {}).get(tier)
    if os.environ.get('FBMC_CAP_S'):
        cap = float(os.environ['FBMC_CAP_S'])
    if cap is None and tier == 'thorough':
        cap = 1200.0
    deadline = t0 + cap if cap else None
    if hasattr(mod, 'run'):
        return mod.run(tier, seed)
    tasks = mod.tasks(tier, seed)
    import random
    random.Random(seed).shuffle(tasks)
    spaces_done = None
    if tier == 'thorough' and tasks and all('space' in t for t in tasks):
        # bounded spaces in order (smallest first), each to completion while time remains
        res = engine.Result()
        spaces_done = []
        for si in sorted({t['space'] for t in tasks}):
            if time.time() > deadline:
                res.capped = True
                break
            was = res.capped
            res.capped = False
            engine.run_pool(mod.__name__, [t for t in tasks if t['space'] == si], deadline, into=res)
            spaces_done.append({'space': si, 'complete': not res.capped})
            res.capped = res.capped or was
    else:
        res = engine.run_pool(mod.__name__, tasks, deadline)
    bfs_cov = None
    bfs_depth = getattr(mod, 'BFS', {}).get(tier)
    if os.environ.get('FBMC_BFS_DEPTH'):
        bfs_depth = int(os.environ['FBMC_BFS_DEPTH'])
    if bfs_depth:
        from . import bfs
        bfs_cov = bfs.run(prop, mod.BFS_CLAUSES, bfs_depth, deadline, res)
    wall = time.time() - t0
    cov = mod.coverage(res, tier)
    if bfs_cov:
        cov.update(bfs_cov)
        cov['states'] = cov.get('states', 0) + bfs_cov['bfs_distinct_states']
        tr = sum(l['transitions'] for l in bfs_cov['bfs_levels'])
        cov['transitions'] = cov.get('transitions', 0) + tr
        if 'traces_validated_against_impl' in cov:
            cov['traces_validated_against_impl'] += tr
    if spaces_done is not None:
        cov['spaces_completed'] = spaces_done
        cov['time_cap_s'] = round(deadline - t0)
    return engine.report(prop, tier, seed, getattr(mod, 'LEVEL', 'model_checking'), res, cov, wall,
                         getattr(mod, 'ASSUMPTIONS', ()))


if __name__ == '__main__':
    sys.exit(main(sys.argv[1:]))
