import importlib
import json
import os
import sys
import time

from . import engine

LEVELS = {}


def main(argv):
    if not argv:
        print('usage: check <ID> [--tier quick|thorough] | check replay <file>')
        return 2
    if argv[0] == 'replay':
        from . import replay
        return replay.main(argv[1:])
    prop = argv[0]
    tier = os.environ.get('VERIF_TIER', 'quick')
    if '--tier' in argv:
        tier = argv[argv.index('--tier') + 1]
    seed = int(os.environ.get('VERIF_SEED', '0') or 0)
    mod = importlib.import_module('fbmc.checks.' + prop.lower())
    t0 = time.time()
    cap = getattr(mod, 'CAP_S', {}).get(tier)
    if os.environ.get('FBMC_CAP_S'):
        cap = float(os.environ['FBMC_CAP_S'])
    deadline = t0 + cap if cap else None
    if hasattr(mod, 'run'):
        return mod.run(tier, seed)
    tasks = mod.tasks(tier, seed)
    import random
    random.Random(seed).shuffle(tasks)
    res = engine.run_pool(mod.__name__, tasks, deadline)
    wall = time.time() - t0
    cov = mod.coverage(res, tier)
    return engine.report(prop, tier, seed, getattr(mod, 'LEVEL', 'model_checking'), res, cov, wall,
                         getattr(mod, 'ASSUMPTIONS', ()))


if __name__ == '__main__':
    sys.exit(main(sys.argv[1:]))
