#!/bin/bash
# try_mutant.sh <seeded-id> <check-id>... : apply a seeded change to /repo, run the quick checks, undo.
id=$1; shift
if ! git -C /repo diff --quiet; then echo "/repo has local modifications; refusing"; exit 2; fi
git -C /repo apply /verif/seeded/$id/patch.diff || { echo "patch does not apply"; exit 2; }
trap 'git -C /repo checkout -- .' EXIT
for c in "$@"; do
  out=$(cd /verif && ./check $c 2>&1)
  code=$?
  echo "== $id vs $c: exit=$code  $(echo "$out" | grep -c '^VIOLATION') violation lines"
  echo "$out" | grep -A1 '^VIOLATION' | grep clause | head -4
done
