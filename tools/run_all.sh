#!/bin/bash
# run_all.sh [tier]: run every claimed check on the current tree, one line each
cd /verif
tier=${1:-quick}
for c in $(python3 -c "import json;print(' '.join(c['property_id'] for c in json.load(open('MANIFEST.json'))['checks']))"); do
  s=$(date +%s)
  out=$(./check $c --tier $tier 2>&1); code=$?
  echo "$c exit=$code $(($(date +%s)-s))s :: $(echo "$out" | tail -1)"
  echo "$out" | grep -E "^(VIOLATION|KNOWN-FINDING|HARNESS)" | head -5
done
python3-vt - <<'PY'
import json,jsonschema,glob
s=json.load(open('/root/.vp/EVIDENCE.schema.json'))
for f in sorted(glob.glob('/verif/evidence/*.json')):
    try: jsonschema.validate(json.load(open(f)),s)
    except Exception as e: print('EVIDENCE INVALID',f,str(e)[:200])
print('evidence validated')
PY
