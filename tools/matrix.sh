#!/bin/bash
# matrix.sh [ids...]: for every seeded change, apply it in a scratch worktree (not /repo), run the quick check of
# the property it targets (plus extra checks listed in seeded/<id>/also), record the result in seeded/<id>/meta.json.
cd /verif
ids=${@:-$(ls seeded)}
mkdir -p /tmp/wtm
for id in $ids; do
  d=seeded/$id
  [ -f $d/patch.diff ] || continue
  wt=/tmp/wtm/$id
  git -C /repo worktree add --detach $wt HEAD -q 2>/dev/null || { echo "$id: cannot create worktree"; continue; }
  if ! git -C $wt apply /verif/$d/patch.diff 2>/dev/null; then
    echo "$id: PATCH DOES NOT APPLY"; git -C /repo worktree remove --force $wt; continue
  fi
  prop=${id%%-*}
  checks="$prop $(cat $d/also 2>/dev/null)"
  res=""
  for c in $checks; do
    out=$(FBMC_REPO=$wt ./check $c 2>&1); code=$?
    n=$(echo "$out" | grep -c '^VIOLATION')
    cl=$(echo "$out" | grep -A1 '^VIOLATION' | grep clause | head -2 | sed 's/^ *//' | tr '\n' ';')
    res="$res$c:exit=$code:violations=$n "
    python3 - "$d/meta.json" "$c" "$code" "$n" "$cl" <<'PY'
import json,sys
f,c,code,n,cl=sys.argv[1:6]
m=json.load(open(f))
m.setdefault('checks_run',{})[c]={'exit':int(code),'violation_lines':int(n),'first_clauses':cl}
m['detected_by']=sorted(k for k,v in m['checks_run'].items() if v['exit']==1 and v['violation_lines']>0)
json.dump(m,open(f,'w'),indent=1)
PY
  done
  git -C /repo worktree remove --force $wt
  echo "$id: $res"
done
