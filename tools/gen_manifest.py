#!/usr/bin/env python3
"""Regenerates /verif/MANIFEST.json from the table below (single source of truth)."""
import json, os
V = '/verif'
CHECKS = {
 'C01': dict(level='model_checking', engine='seqmc', technique='explicit-state exploration of the implementation: exhaustive enumeration of programs x initial trees x mutations (bounded size), each API call compared with an executable reference model',
   text='Every build/clean call of every history in the stated bounded space (all call skeletons up to the size bound, all initial trees, every external mutation of the alphabet) is executed by the real FileBuilder and by the from-scratch reference model from the same state; return value (type-exact), exception class and resulting tree must agree. Exhaustive within the bounds listed in the evidence file.',
   note='Trusts CPython, tmpfs semantics, the ~200-line DSL interpreter shared by both sides and the reference model (validated against the implementation on every transition). Bounded: paths U={a,i,d,d/x,d/y,d/e,d/e/z}, programs <=2 (quick) / <=3 (thorough) call nodes plus the single-observer and 3-chain families; no symlinks, permissions, concurrent external changes.', design='4/C01'),
 'C02': dict(level='model_checking', engine='seqmc', technique='exhaustive crash-point enumeration on the implementation: every program point of every build transition of the bounded sweep, before/after monitors plus depth-1 bisimulation',
   text='For every (program, initial tree, mutation) of the bounded space and every program point k of the first build and of the rebuild, the build is re-run with an exception injected at k. Oracles: the exception leaving build is the injected object; every file that existed before has identical bytes and mtime (cache file included); nothing new remains (recorded created directories may reappear empty); the next build from the post-rollback state equals the next build from the saved pre-state. Exhaustive within the listed bounds.',
   note='Monitors compare the real tree before/after; no model involved except for choosing histories. Crash points are statement boundaries of the generated user functions (before/after every builder call, inside every nested function, after the last statement); BaseExceptions and cache-write faults are not injected here (cache-write faults: C14/C16).', design='4/C02'),
 'C12': dict(level='model_checking', engine='seqmc', technique='exhaustive enumeration of histories with clean at every position, executed on the implementation and compared with the reference model',
   text='clean is executed after commits, after rolled-back builds, after every external mutation and after a previous clean, for every program/tree/mutation of the bounded space; the tree after clean must equal the reference model (outputs, cache file and emptied created directories gone, nothing else touched), a second clean must change nothing, and the next build must behave as a first build (value, tree and invocation log equal the from-scratch model).',
   note='Same trusted base as C01.', design='4/C12'),
 'C03': dict(level='model_checking', engine='seqmc', technique='exhaustive enumeration of histories with foreign files planted at every path role; model-free before/after monitor on every API call of the implementation',
   text='Around every build (committed or rolled back) and clean of every history in the bounded space, every regular file outside the managed set (cache file, paths passed to build_file in this call, recorded previous outputs) must keep inode, bytes and mtime, every directory that disappears must have been created by a build and have held nothing foreign, and after a rolled-back build every file that existed before must be back. Foreign files are planted inside every existing directory, at every output position and as file<->directory replacements; programs that nest an output below another output are included.',
   note='The monitor uses no model; the managed set of previous outputs comes from the reference model record, which is validated by tree equality on every committed build.', design='4/C03'),
 'C04': dict(level='model_checking', engine='seqmc', technique='exhaustive enumeration of (program point, query kind, path) on the implementation; answers compared with the reference model plus model-free consistency laws',
   text='Every query kind x every path of the universe is asked at every program point (before/inside/after nested build_file calls in all five modes) of every program of the bounded space, on every prior state the sweep reaches, in two regimes: full batteries everywhere, and one single probe query with nobody having looked before. Each answer (value or OSError subclass) must equal the reference model and the answers of each battery must satisfy the consistency laws (exists = is_file or is_dir, list_dir = existing children, walk agrees recursively, parents of existing paths are directories, error classes).',
   note='Latitudes: get_size of a directory is only required not to raise; order inside list_dir/walk results is normalised by sorting (walk top-down order is checked separately); directories that only hold the cache file are not observed.', design='4/C04'),
 'C10': dict(level='model_checking', engine='seqmc', technique='exhaustive enumeration of target depth x prior state x failure mode (incl. each mkdir failing, over-long components) on the implementation; contract monitors on the real file system plus reference-model comparison',
   text='For every 1-node program (all five body modes plus user functions raising TypeError/OSError/RuntimeError objects), every initial tree and every mutation after a preparing build, and for 2-node nestings: monitors inside the body (target absent, parents exist, path argument is the absolute normalised str), right after the call (regular file holding the written bytes / target absent after a failure / same exception object), full batteries right after a caught failure (created parents gone at once) and the final tree (gone on disk), also with every mkdir of the library failing in turn and with over-long path components.',
   note='Same trusted base as C01; mkdir faults are injected by wrapping os.mkdir at run time (E3).', design='4/C10'),
 'C14': dict(level='fault_enumeration', engine='faultmc', technique='deviation-bounded exhaustive fault enumeration on the implementation: one injected OSError at every k-th mutating library call of every build transition of the bounded sweep',
   text='Every build transition of the bounded sweep is first run counting the mutating file-system calls the library makes before the commit (mkdir, rename, rmdir, replace, open-for-write), then re-run once per call k and errno (EIO, EACCES; for the cache file also write-after-n-bytes and close) with exactly that call failing. Uncaught: the rollback monitors of C02 must hold. Caught: value and tree must equal the reference model with the API call in progress failing in setup without effect (or the fault had no observable effect), foreign files untouched, and clean afterwards leaves the model tree.',
   note='One deviation per run (two-fault sequences are not explored). Faults inside commit/roll back are outside the statement and not injected. remove/unlink are not injected (the property lists create-directory, move-aside and cache-write calls).', design='4/C14'),
 'C07': dict(level='model_checking', engine='valmc', technique='exhaustive enumeration of all ordered pairs of a colliding value set / path spellings, each pair executed as real builds and compared with an independent canonical form',
   text='For every ordered pair (v1, v2) of the argument value set (atoms chosen to collide, tuples, non-string and colliding keys, grown dicts, big ints, -0.0, inf, non-BMP) as positional and as keyword argument, for subbuild and build_file, and for every ordered pair of 17 spellings of paths and of function names: the second call is rejected in the same build / served without invocation in the next build iff the independently computed canonical forms are equal, and the callee receives exactly json.loads(json.dumps(args)) and os.path.abspath(os.fsdecode(path)).',
   note='Value set is finite and listed in the evidence; deeper values are covered by C18 on the helper functions themselves.', design='4/C07'),
 'C18': dict(level='model_checking', engine='valmc', technique='exhaustive bounded enumeration of JSON values (all values up to a node bound) and of all ordered pairs, helper results compared with an independent canonical form',
   text='All values with <=3 (quick) / <=4 (thorough) constructor nodes over 13 colliding atoms (lists, tuples, dicts with str/int/float/bool/None keys): sanitize(v) is type-exactly json.loads(json.dumps(v)), idempotent and shares no mutable object with v. All ordered pairs of the de-duplicated sanitised set (plus tuple-ised variants): is_equal and equality of to_hashable both coincide with equality of an independently written canonical form, which makes is_equal an equivalence (reflexive, symmetric, transitive) on the set and gives the bool/number, 1/1.0 and list/tuple clauses. Non-JSON values raise TypeError; int/str/list/dict subclasses are normalised.',
   note='Bounded by node count; the random deeper values mentioned in the quantifier are sampling and not used as evidence.', design='4/C18'),
 'C11': dict(level='model_checking', engine='valmc', technique='exhaustive enumeration of (API edge, container position, in-place edit) cases, each executed as three real builds against an edit-free twin',
   text='17 value-carrying API edges (args/kwargs into subbuild/build_file callees, caller keeping the argument object, values returned fresh / served from cache / nested, callee keeping the returned object, list_dir and walk results incl. the inner lists) x every list/dict node of three nested value shapes x every in-place edit: three consecutive builds with the edit must give the same return values (snapshotted before the edit), invocation logs, received arguments and cache decisions as the twin run without the edit.',
   note='Differential oracle (program vs. its twin), no model. Shapes and edits are a finite listed alphabet.', design='4/C11'),
 'C15': dict(level='fault_enumeration', engine='faultmc', technique='exhaustive corruption enumeration: every truncation length, every single-bit flip, wrong payloads and every wrong-typed argument position, each executed on the implementation with a bit-identical-tree monitor',
   text='On a tree with outputs, created directories, a foreign input and a valid cache file (cache in the root and in its own directory; intact tree and with a created directory removed by hand): every truncation 0..|B|-1, every single-bit flip, 13 gzip/JSON payload variants, cache path a directory, other build name and 60+ wrong-typed argument combinations of build/build_versioned/clean. A call that raises without entering the root function must leave the tree bit-identical (bytes, mtimes, inodes) and the temp dir unchanged; truncations, magic/trailer flips, wrong payloads and wrong types must be refused; other flips may be accepted and must then behave like the intact cache.',
   note='Flips in deflate padding bits / unchecked gzip header fields are legitimately accepted by zlib; they are compared with the intact-cache behaviour instead.', design='4/C15'),
 'C16': dict(level='model_checking', engine='valmc', technique='exhaustive enumeration of return values x forest positions, legal names, versions, and of <=2-node/3-chain programs with cache-file structural invariants and cache-write faults, executed on the implementation',
   text='Every value of the value set returned at 8 nesting positions of the operation forest and served from the cache type-exactly equal with nothing re-executed; every (directory name, file name) pair of a 17-name legal-name grammar built, rebuilt without re-execution and cleaned; every value as a function version; every enclosing-record-invalidated / nested-record-unchanged forest shape re-executes only the enclosing function; every <=2-node program and 3-chain built three times with reference-model comparison, steady-state logs, structural cache invariants (no duplicate record; cache file untouched until the root function returned) and every cache-write fault (open/write/close) followed by a build that must behave as if the failed one never ran.',
   note='Names longer than 255 bytes and NUL are not legal names; BaseException (KeyboardInterrupt) during the root function is not injected (the library only promises rollback for Exception).', design='4/C16'),
 'C05': dict(level='model_checking', engine='seqmc', technique='exhaustive enumeration of histories (program x tree x mutation x rebuild twice) on the implementation with an effectiveness oracle derived from reference-model trace trees',
   text='For every committed build of the bounded sweep (single-observer functions, sparse level-3 observers, <=2-node skeletons, 3-chains): an unchanged rebuild twice and a rebuild after each single mutation of the alphabet. A call whose previous record was ok without setup failure, whose function versions are equal, whose outputs are untouched and whose from-scratch trace (operations, answers, identities of files read) is identical must not be invoked; outputs of calls that were not re-executed keep inode and mtime; an unchanged rebuild invokes exactly the predicted set (calls that raised or had a setup failure, reached through re-executing callers).',
   note='One-sided: silent when a trace contains an answer the model masks (get_size of a directory, cache-only directory), reads a file built in the same build, or a recorded failed output is displaced by a foreign file. The evidence reports how many calls the oracle actually forbade.', design='4/C05'),
 'C06': dict(level='model_checking', engine='seqmc', technique='exhaustive enumeration of call graphs x ordered version pairs, executed on the implementation; invocation logs compared with a prediction from reference-model traces',
   text='All call graphs with 1-3 nodes (5 forest shapes, subbuild/build_file, explicit function names incl. a shared callee name) x each function x all ordered pairs of a 17-value version domain (absent, None, 0, 1, 1.0, True, "1", lists, key-reordered and growing dicts), with bodies that ignore or mention their version; two functions at once over a 4-value sub-domain; graphs with a caught failing node. History build(V_old), build(V_new), build(V_new): the invocation log after the change equals the prediction (calls of changed functions and their transitive callers; nothing when versions are JSON-equal by the independent canonical form), every build equals the reference model with the new version map, independent calls stay cached.',
   note='JSON equality of versions is decided by the independent canonical form of C18; bodies depend on their version only up to JSON equality (the documented user obligation).', design='4/C06'),
 'C13': dict(level='model_checking', engine='seqmc', technique='exhaustive enumeration of (role, nesting, comparison mode, mutation) combinations executed on the implementation; invocation logs compared with the mode table, results with the reference model',
   text='Every combination of role {input read, output integrity, output read back by a separate reader with producer/reader comparison modes and fresh/fixed output mtime} x {top-level, nested in a reused subtree} x {METADATA, HASH} x mutation {none, touch, +1 ns, same-size same-mtime content flip, rewrite, size change with same mtime, delete}, on a first and on an already rebuilt cache: HASH re-executes dependents iff bytes differ, METADATA iff size or mtime_ns differ (incl. the asserted non-detection of a same-size same-mtime change), the next unchanged rebuild invokes nothing, results equal the reference model except where the documentation concedes staleness.',
   note='mtimes are set with os.utime from a logical clock, so every combination is constructible deterministically.', design='4/C13'),
}
NOT_YET = {}
props = [json.loads(l)['id'] for l in open(V + '/properties.jsonl')]
checks = []
for p in props:
    if p not in CHECKS:
        continue
    c = CHECKS[p]
    checks.append({
        'property_id': p,
        'quick_cmd': './check %s --tier quick' % p,
        'thorough_cmd': './check %s --tier thorough' % p,
        'evidence_file': '/verif/evidence/%s.json' % p,
        'replay_cmd_template': './check replay {path}',
        'engine': c['engine'],
        'level_claimed': {'category': c['level'], 'text': c['text'], 'design_ref': 'DESIGN.md section ' + c['design']},
        'level_note': c['note'],
        'technique': c['technique'],
    })
na = [{'property_id': p, 'reason': NOT_YET.get(p, 'check under construction in this session (DESIGN.md section 9 build order); not claimed until its quick command exists and is silent on the unchanged tree')}
      for p in props if p not in CHECKS]
m = {
 'version': 1,
 'setup_cmd': 'cd /verif && /venv/bin/python -m compileall -q fbmc >/dev/null 2>&1; /venv/bin/python -m fbmc.selftest',
 'hooks': {
  'guard': 'FILE_BUILDER_VERIF',
  'enable': 'no source hooks: scheduling points, fault injection and flag instrumentation are applied at run time from /verif by replacing module attributes of the freshly imported /repo/file_builder; the guard variable is unused',
  'baseline_off_cmd': 'cd /repo && /venv/bin/python -m pytest -q -p no:cacheprovider',
  'source_commits': [],
  'add_only': True,
 },
 'engines': [
  {'name': 'seqmc', 'path': 'fbmc/history.py fbmc/checks/', 'serves_properties': [p for p in props if CHECKS.get(p, {}).get('engine') == 'seqmc'],
   'kind_free_text': 'explicit-state / exhaustive bounded enumeration of sequential histories executed on the real implementation, reference-model oracle'},
  {'name': 'valmc', 'path': 'fbmc/valmc.py fbmc/checks/c18.py fbmc/checks/c07.py', 'serves_properties': [p for p in props if CHECKS.get(p, {}).get('engine') == 'valmc'],
   'kind_free_text': 'exhaustive value-space enumeration (JSON constructors over a colliding atom set), all ordered pairs'},
  {'name': 'faultmc', 'path': 'fbmc/faults.py fbmc/checks/c14.py', 'serves_properties': [p for p in props if CHECKS.get(p, {}).get('engine') == 'faultmc'],
   'kind_free_text': 'deviation-bounded fault injection (k-th mutating library call fails) on top of seqmc'},
 ],
 'checks': checks,
 'not_applicable': na,
 'notes': 'All checks run the implementation in /repo directly (python imports it fresh from the working tree on every run). Violations are written to /verif/replays/ and re-executed with ./check replay <file>. known_findings.json lists repaired (fixed:) and open defects.',
}
json.dump(m, open(V + '/MANIFEST.json', 'w'), indent=1)
print('checks:', [c['property_id'] for c in checks], 'not_applicable:', len(na))
