#!/usr/bin/env python3
"""keep_mutant.py <property> <outdir> <m> "<needs>" : copy a confirmed seeded change into /verif/seeded/<prop>-<m>/"""
import json, os, shutil, subprocess, sys
prop, out, m, needs = sys.argv[1:5]
d = '/verif/seeded/%s-%s' % (prop, m)
os.makedirs(d, exist_ok=True)
shutil.copy(os.path.join(out, m + '.diff'), os.path.join(d, 'patch.diff'))
shutil.copy(os.path.join(out, m + '_demo.py'), os.path.join(d, 'demo.py'))
if os.path.exists(os.path.join(out, m + '_notes.md')):
    shutil.copy(os.path.join(out, m + '_notes.md'), os.path.join(d, 'notes.md'))
v = subprocess.run(['/verif/tools/verify_mutant.sh', out, m], capture_output=True, text=True).stdout.strip().splitlines()[-1]
head = subprocess.run(['git', '-C', '/repo', 'rev-parse', '--short', 'HEAD'], capture_output=True, text=True).stdout.strip()
meta = {'id': '%s-%s' % (prop, m), 'breaks_property': prop, 'origin': 'independent sub-agent given only the property text and a scratch worktree',
        'needs_to_manifest': needs, 'confirmed': {'repo_head': head, 'ran': 'tools/verify_mutant.sh (scratch worktree: demo on unmodified tree, git apply, pinned 69 tests, demo with change)', 'result': v},
        'detected_by': []}
json.dump(meta, open(os.path.join(d, 'meta.json'), 'w'), indent=1)
print(d, v)
