#!/bin/bash
# fix_matrix.sh [ids...]: "a fixed entry suppresses nothing ... and reports the violation again if it ever returns".
# For every `fixed` entry of known_findings.json: revert its fix: commit in a scratch worktree of /repo's HEAD
# (never in /repo), run the quick check of the owning property against that worktree, and record whether a
# VIOLATION with the entry's clause came back.  The replay file of the returned violation is kept as
# regressions/<id>.json (./check replay regressions/<id>.json re-executes it on the current tree).
cd /verif
mkdir -p regressions /tmp/wtf
python3 - "$@" <<'PY' > /tmp/wtf/list
import json,sys
want=set(sys.argv[1:])
for f in json.load(open('/verif/known_findings.json'))['findings']:
    if f['status']=='fixed' and f.get('commit') and (not want or f['id'] in want):
        print(f['id'], f['property'], f['commit'], f['clause'])
PY
while read id prop commit clause; do
  wt=/tmp/wtf/$id
  git -C /repo worktree add --detach $wt HEAD -q 2>/dev/null || { echo "$id: cannot create worktree"; continue; }
  also=""
  if ! git -C $wt revert --no-commit $commit >/dev/null 2>&1; then
    # later repairs rewrote the same lines: revert those too (newest first), then this one
    git -C $wt revert --abort >/dev/null 2>&1; git -C $wt reset -q --hard HEAD
    files=$(git -C /repo show --format= --name-only $commit)
    also=$(git -C /repo log --format=%h $commit..HEAD -- $files | tr '\n' ' ')
  fi
  if [ -n "$also" ] && ! git -C $wt revert --no-commit $also $commit >/dev/null 2>&1; then
    echo "$id $prop $commit: revert conflicts with later fixes (skipped)"
    python3 - $id <<'PY'
import json,sys
p='/verif/regressions/fix_matrix.json'
try: m=json.load(open(p))
except Exception: m={}
m[sys.argv[1]]={'reverted':False,'why':'revert conflicts with later fix commits'}
json.dump(m,open(p,'w'),indent=1,sort_keys=True)
PY
    git -C /repo worktree remove --force $wt; continue
  fi
  tests=$(cd $wt && timeout 600 /venv/bin/python -m pytest -q -p no:cacheprovider 2>&1 | tail -1)
  out=$(FBMC_REPO=$wt ./check $prop 2>&1); code=$?
  hit=$(echo "$out" | grep -A1 '^VIOLATION' | grep -c "clause=$clause")
  first=$(echo "$out" | grep -B1 "clause=$clause" | grep '^VIOLATION' | head -1 | sed 's/.*replay=//')
  [ -n "$first" ] && [ -f "$first" ] && cp "$first" regressions/$id.json
  python3 - $id $prop $commit "$clause" $code $hit "$tests" "$also" <<'PY'
import json,sys
id_,prop,commit,clause,code,hit,tests,also=sys.argv[1:9]
p='/verif/regressions/fix_matrix.json'
try: m=json.load(open(p))
except Exception: m={}
m[id_]={'reverted':True,'property':prop,'commit':commit,'clause':clause,'check_exit':int(code),
        'violations_with_the_clause':int(hit),'pinned_tests_with_the_revert':tests,'returned':int(code)==1 and int(hit)>0}
if also.strip():
    m[id_]['later_repairs_of_the_same_lines_reverted_too']=also.split()
json.dump(m,open(p,'w'),indent=1,sort_keys=True)
PY
  git -C /repo worktree remove --force $wt
  echo "$id $prop $commit: exit=$code violations_with_clause=$hit tests='$tests' also_reverted='$also'"
done < /tmp/wtf/list
