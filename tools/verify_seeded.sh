#!/bin/bash
# verify_seeded.sh <seeded-id>: re-confirm a kept change on /repo's current HEAD (scratch worktree, removed afterwards)
d=/verif/seeded/$1
wt=/tmp/wtv/s$$
mkdir -p /tmp/wtv
git -C /repo worktree add --detach $wt HEAD -q || exit 2
cd $wt
export TMPDIR=/dev/shm/vm_$$; mkdir -p $TMPDIR
timeout 300 /venv/bin/python $d/demo.py $wt >/dev/null 2>&1; base=$?
if ! git apply $d/patch.diff 2>/dev/null; then
  cd /; git -C /repo worktree remove --force $wt; rm -rf $TMPDIR
  echo "$1: PATCH DOES NOT APPLY on current HEAD (demo on base exit=$base)"; exit 1
fi
tests=$(timeout 600 /venv/bin/python -m pytest -q -p no:cacheprovider 2>&1 | tail -1)
timeout 300 /venv/bin/python $d/demo.py $wt >/dev/null 2>&1; mut=$?
cd /
git -C /repo worktree remove --force $wt
rm -rf $TMPDIR
echo "$1: demo_unmodified_exit=$base tests='$tests' demo_mutant_exit=$mut"
