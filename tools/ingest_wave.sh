#!/bin/bash
# ingest_wave.sh <prop> <agent-outdir> <k> <new-m-id> "<needs>": verify one delivered change (m<k>.diff, m<k>_demo.py) and,
# if confirmed (demo 0 on HEAD, 69 tests pass with the change, demo 1 with it), keep it as seeded/<prop>-<new-m-id>.
prop=$1; out=$2; k=$3; new=$4; needs=$5
tmp=/dev/shm/ingest_$$; mkdir -p $tmp
for s in .diff _demo.py _notes.md; do [ -f $out/m$k$s ] && cp $out/m$k$s $tmp/$new$s; done
v=$(/verif/tools/verify_mutant.sh $tmp $new)
echo "$v"
if echo "$v" | grep -q "demo_unmodified_exit=0 tests='69 passed.*demo_mutant_exit=1$"; then
  /verif/tools/keep_mutant.py $prop $tmp $new "$needs"
else
  echo "NOT CONFIRMED: $prop $k"
fi
rm -rf $tmp
