#!/bin/bash
# verify_mutant.sh <outdir> <m1|m2|...>  : in a scratch worktree of /repo's pinned base commit + current HEAD,
# confirm: demo passes without the change, patch applies, 69 tests pass with it, demo fails with it.
# Prints a one-line verdict.  The scratch worktree is removed afterwards.
out=$1; m=$2
wt=/tmp/wtv/$$_$m
mkdir -p /tmp/wtv
git -C /repo worktree add --detach $wt HEAD -q || exit 2
cd $wt
export TMPDIR=/dev/shm/vm_$$; mkdir -p $TMPDIR
timeout 300 /venv/bin/python $out/${m}_demo.py $wt >/dev/null 2>&1; base=$?
if ! git apply $out/$m.diff 2>/dev/null; then
  git -C /repo worktree remove --force $wt; rm -rf $TMPDIR
  echo "$out $m: PATCH DOES NOT APPLY on current HEAD (demo on base exit=$base)"; exit 1
fi
tests=$(timeout 600 /venv/bin/python -m pytest -q -p no:cacheprovider 2>&1 | tail -1)
timeout 300 /venv/bin/python $out/${m}_demo.py $wt >/dev/null 2>&1; mut=$?
cd /
git -C /repo worktree remove --force $wt
rm -rf $TMPDIR
echo "$out $m: demo_unmodified_exit=$base tests='$tests' demo_mutant_exit=$mut"
